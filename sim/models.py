"""Small executable reference models (no import from zeroconf).

ModelCache   RFC 6762 section 10 cache as the library documents it (C04/C05/C06 and, per
             host, the known-answer / recent-multicast oracles of C10..C13, C18).
"""
from . import wire

PTR_FLOOR = 1125
PURGE_PERIOD = 10.0


class Entry:
    __slots__ = ("created", "ttl", "rr")

    def __init__(self, created, ttl, rr):
        self.created, self.ttl, self.rr = created, ttl, rr

    def expires(self):
        return self.created + 1000.0 * self.ttl

    def expired(self, t_ms):
        return self.created + 1000.0 * self.ttl <= t_ms

    def stale(self, t_ms):
        return self.created + 500.0 * self.ttl <= t_ms

    def recent(self, t_ms):
        return self.created + 250.0 * self.ttl > t_ms

    def remaining(self, t_ms):
        r = (self.created + 1000.0 * self.ttl - t_ms) / 1000.0
        return 0 if r < 0 else r

    def __repr__(self):
        return f"E(c={self.created:.3f},ttl={self.ttl},{self.rr!r})"


class DatagramEffect:
    """What one response datagram does to the cache, in the terms of C06."""

    __slots__ = ("t", "pairs", "new", "removed", "refreshed", "flushed", "ambiguous", "before", "first", "after")

    def __init__(self):
        self.pairs = []  # (ident, had_previous) in datagram order
        self.new = []  # idents added after the first callback
        self.removed = []  # idents removed after the first callback
        self.refreshed = []  # idents whose (created, ttl) were reset before the first callback
        self.flushed = []  # idents marked to expire in 1 s
        self.ambiguous = set()  # idents listed with ttl 0 and ttl > 0 in one datagram


class ModelCache:
    def __init__(self, start_s=None):
        self.e = {}  # ident -> Entry, insertion ordered
        self.next_purge = None if start_s is None else start_s + PURGE_PERIOD
        self.purged_log = []  # (t_purge_s, [idents])

    # ---- time
    def advance(self, t_s):
        """Apply every periodic purge with purge time <= t_s."""
        out = []
        while self.next_purge is not None and self.next_purge <= t_s:
            tp = self.next_purge
            gone = [i for i, e in self.e.items() if e.expired(tp * 1000.0)]
            for i in gone:
                del self.e[i]
            self.purged_log.append((tp, gone))
            out.append((tp, gone))
            self.next_purge = tp + PURGE_PERIOD
        return out

    # ---- ingestion
    @staticmethod
    def eff_ttl(rr):
        if rr.type == wire.T_PTR and 0 < rr.ttl < PTR_FLOOR:
            return PTR_FLOOR
        return rr.ttl

    def apply_response(self, t_ms, records, adopt=None):
        """Apply one response datagram delivered at t_ms. Returns a DatagramEffect.

        adopt: optional callable(ident) -> bool|None used for the one declared ambiguity
        (same identity with TTL 0 and TTL > 0 in one datagram): True = present afterwards.
        """
        eff = DatagramEffect()
        eff.t = t_ms
        eff.before = {i: (e.created, e.ttl) for i, e in self.e.items()}
        idents_in_dgram = set()
        zero = set()
        pos = set()
        flush_sets = set()
        adds = {}
        removes = []
        for rr in records:
            ident = rr.ident()
            idents_in_dgram.add(ident)
            ttl = self.eff_ttl(rr)
            if rr.flush:
                flush_sets.add(rr.rrset())
            cur = self.e.get(ident)
            if ttl > 0:
                pos.add(ident)
                if cur is not None:
                    cur.created, cur.ttl = t_ms, ttl
                    eff.refreshed.append(ident)
                else:
                    adds[ident] = Entry(t_ms, ttl, rr)  # last copy wins for created/ttl
                eff.pairs.append((ident, cur is not None))
            else:
                zero.add(ident)
                if cur is not None:
                    eff.pairs.append((ident, True))
                    if ident not in removes:
                        removes.append(ident)
        for ident, e in list(self.e.items()):
            if e.rr.rrset() in flush_sets and t_ms - e.created > 1000.0 and ident not in idents_in_dgram:
                e.created, e.ttl = t_ms, 1
                eff.flushed.append(ident)
        eff.first = {i: (e.created, e.ttl) for i, e in self.e.items()}
        eff.ambiguous = zero & pos
        for ident, e in adds.items():
            self.e[ident] = e
            eff.new.append(ident)
        for ident in removes:
            if ident in self.e:
                if ident in eff.ambiguous and adopt is not None and adopt(ident):
                    continue
                del self.e[ident]
                eff.removed.append(ident)
        eff.after = {i: (e.created, e.ttl) for i, e in self.e.items()}
        return eff

    # ---- lookups
    def idents(self):
        return list(self.e)

    def by_name(self, name):
        n = name.lower()
        return {i: e for i, e in self.e.items() if i[0] == n}

    def by_details(self, name, type_, cls=wire.C_IN):
        n = name.lower()
        return {i: e for i, e in self.e.items() if i[0] == n and i[1] == type_ and i[2] == cls}

    def by_server(self, server):
        s = server.lower()
        return {i: e for i, e in self.e.items() if i[1] == wire.T_SRV and i[3][3] == s}

    def names(self):
        return {i[0] for i in self.e}

    def live(self, t_ms):
        return {i: e for i, e in self.e.items() if not e.expired(t_ms)}


def lib_ident(rec):
    """Identity of a zeroconf DNSRecord in the same terms as wire.RR.ident() (public attributes only)."""
    t = rec.type
    name = rec.name.lower()
    cn = type(rec).__name__
    if cn == "DNSAddress":
        rd = bytes(rec.address)
        if rec.scope_id is not None and t == wire.T_AAAA:
            rd = (rd, rec.scope_id)
    elif cn == "DNSPointer":
        rd = rec.alias.lower()
    elif cn == "DNSText":
        rd = bytes(rec.text)
    elif cn == "DNSService":
        rd = (rec.priority, rec.weight, rec.port, rec.server.lower())
    elif cn == "DNSHinfo":
        rd = (rec.cpu.encode("utf-8"), rec.os.encode("utf-8"))
    elif cn == "DNSNsec":
        rd = (rec.next_name, tuple(sorted(rec.rdtypes)))
    else:
        rd = None
    return (name, t, rec.class_, rd)


def lib_state(rec):
    return (rec.created, rec.ttl)


class DupGuard:
    """Per-socket duplicate-datagram guard as C16 states it: a datagram delivered twice in immediate succession - the same
    bytes within 1000 ms of the previous datagram on the same socket - is ignored unless it contained a QU question.
    The same bytes from another legacy source are another client's query, not a duplicate."""

    def __init__(self):
        self.data = None
        self.t = 0.0
        self.t_read = 0.0
        self.last_qu = False
        self.src = None
        self.is_resp = False
        self.undone = False  # a response accepted on another socket since may have undone what this one did

    def suppressed(self, data, t_ms, src=None):
        # a one-shot (legacy, port != 5353) query needs a unicast reply to its own address and port (C11): only a copy
        # from that same address and port is its duplicate. Datagrams from port 5353 are answered by multicast (or carry
        # a QU question and are exempt), so for them equal bytes suffice.
        same_src = src is None or self.src is None or src[1] == wire.MDNS_PORT or _src_key(src) == self.src
        # (a copy within 20 ms is a link-layer duplicate whatever the other sockets received in between; later ones are
        # retransmissions, which count again once a response on another socket may have undone the first)
        # (... within 20 ms of the last time these bytes were READ: the copy of a dropped retransmission follows the
        # retransmission, not the datagram that was processed up to a second earlier)
        fresh = not self.undone or (t_ms - 20.0) < self.t_read
        dup = self.data == data and (t_ms - 1000.0) < self.t and fresh and not self.last_qu and same_src
        if dup:
            self.t_read = t_ms
        return dup

    def accept(self, data, t_ms, has_qu, src=None, is_resp=False):
        self.data, self.t, self.last_qu = data, t_ms, has_qu
        self.t_read = t_ms
        self.src = _src_key(src) if src is not None else None
        self.is_resp = is_resp
        self.undone = False


def _src_key(addr):
    return (addr[0], addr[1])


class GuardSet:
    """The duplicate guards of all sockets of one instance: a response accepted on one socket marks the memory of the
    other sockets that remember a response as undone (it may have undone what that one did, so a later identical copy - a
    retransmission, say the second goodbye 125 ms later - has to count again). Queries, garbage and whatever else is read
    from another socket between a datagram and its back-to-back copy change nothing: the copy stays a duplicate."""

    def __init__(self):
        self.g = {}

    def check(self, sock_label, data, t_ms, src=None):
        """-> True when the datagram is to be processed (and records it), False when it is a suppressed duplicate."""
        g = self.g.setdefault(sock_label, DupGuard())
        return not g.suppressed(data, t_ms, src)

    def accept(self, sock_label, data, t_ms, has_qu, src=None):
        m = wire.try_decode(data)
        is_resp = bool(m is not None and m.is_response)
        self.g.setdefault(sock_label, DupGuard()).accept(data, t_ms, has_qu, src, is_resp)
        if is_resp:
            for k, other in self.g.items():
                if k != sock_label and other.is_resp:
                    other.undone = True


class HostModel:
    """What one host has heard: duplicate guard per socket + ModelCache fed with accepted responses."""

    def __init__(self, start_s):
        self.cache = ModelCache(start_s)
        self.guards = GuardSet()
        self.suppressed = 0
        self.held = {}  # (socket, querier) -> time (ms) of the last truncated query packet that is being held for it

    @staticmethod
    def _querier(sock_label, src):
        if src is None:
            return None
        return (sock_label, src[0]) if src[1] == wire.MDNS_PORT else (sock_label, src[0], src[1])

    def is_duplicate(self, sock_label, data, t_ms, src=None, msg=False):
        """The duplicate guard of the statement (C16): the same bytes twice in immediate succession on one socket. A
        truncated query packet, and the packet that may complete a truncated query that is held for its source, are
        not for the guard to judge - two queriers with the same cache send the same bytes, and each is 'held for
        continuation packets from the same source' (C12); copies from one source are told apart where the packets are
        held."""
        if msg is False:
            msg = wire.try_decode(data)
        if msg is not None and not msg.is_response:
            g = self.guards.g.get(sock_label)
            other_source = g is None or g.src is None or src is None or g.src != _src_key(src)
            if other_source:
                # (a copy from the very source of the previous datagram stays a duplicate: what was held for it may
                # have been answered already)
                if msg.tc:
                    return False
                k = self._querier(sock_label, src)
                if k is not None and k in self.held and t_ms - self.held[k] <= 500.0 + 1e-3:
                    return False
        return not self.guards.check(sock_label, data, t_ms, src)

    def on_rx(self, t_s, sock_label, data, v6sock=False, src=None):
        """Returns (msg, effect): msg is the strictly decoded accepted datagram or None; effect for responses."""
        t_ms = t_s * 1000.0
        self.cache.advance(t_s)
        if len(data) > wire.MAX_ABS:
            return None, None
        msg = wire.try_decode(data)
        if self.is_duplicate(sock_label, data, t_ms, src, msg):
            self.suppressed += 1
            return None, None
        self.guards.accept(sock_label, data, t_ms, bool(msg and any(q.qu for q in msg.questions)), src)
        if msg is not None and not msg.is_response:
            k = self._querier(sock_label, src)
            if k is not None:
                if msg.tc:
                    self.held[k] = t_ms
                else:
                    self.held.pop(k, None)
        if msg is None:
            return None, None
        if msg.is_response:
            if v6sock:
                for r in msg.records():
                    if r.type == wire.T_AAAA:
                        r.scope = 0  # datagrams read from an AF_INET6 socket carry the receiving scope id
            return msg, self.cache.apply_response(t_ms, msg.records())
        return msg, None


def sighting_cause(cache, sight, flush_marks, r, has_v6_socket):
    """Why the library's memory of the last multicast sighting of record r (its cache entry) differs from the log of
    multicast sightings (times in ms). Used by C11/C12 to name the known sighting-proxy findings."""
    e = cache.e.get(r.ident())
    last = sight.get(r.ident())
    if r.type == wire.T_AAAA and e is None and last is not None and has_v6_socket:
        return "aaaa-scope"
    if e is None:
        return "sighting-erased" if last is not None else "none"
    if last is None or e.created > last + 0.5:
        return "flush-mark" if flush_marks.get(r.ident()) == e.created else "unicast-sighting"
    if e.created < last - 0.5:
        return "sighting-swallowed-by-duplicate-guard"
    if e.ttl != r.ttl:
        return "cached-ttl-differs"
    return "boundary"

