"""Virtual-time asyncio event loop.

asyncio's own scheduler (FIFO ready queue, timer heap, tasks, futures, timeouts)
is kept; only the selector is replaced: when nothing is ready the clock jumps to
the next timer.  Network deliveries are ordinary timers (see net.py), so a single
heap totally orders every event of the run.
"""
import asyncio
import heapq
from asyncio import events, futures


class SimDeadlock(Exception):
    """Nothing ready, nothing scheduled, but the driver has not finished."""


class SimStepCap(Exception):
    """The run exceeded its step cap."""


class SimLivelock(Exception):
    """The system under test keeps the loop busy without virtual time advancing (a zero-delay busy loop)."""


def _wake():
    pass


def _task_factory(loop, coro, **kw):
    task = asyncio.Task(coro, loop=loop, **kw)
    loop.tasks.append(task)
    return task


class _SeqTimerHandle(events.TimerHandle):
    """asyncio orders timers by their deadline only, and heapq is not stable: which of two timers with the same deadline
    runs first would depend on the shape of the heap, i.e. on unrelated timers. Here equal deadlines run in the order in
    which they were scheduled (what a real loop does for deadlines that differ by less than its clock resolution)."""

    __slots__ = ("_seq",)

    def __lt__(self, other):
        if self._when == other._when:
            return self._seq < getattr(other, "_seq", 0)
        return self._when < other._when


class _Selector:
    def __init__(self, loop):
        self._loop = loop

    def select(self, timeout):
        loop = self._loop
        net = loop.net
        if loop.stalls or loop._parked:
            loop._postpone_stalled()
        if net is not None:
            ready = net.readable(loop.stalls)
            if ready:
                # data is waiting in socket buffers: select() returns at once, the clock does not move
                return ready
        loop._advance(timeout)
        if loop.stalls or loop._parked:
            loop._postpone_stalled()
            if net is not None:
                # a stall that has just ended leaves a backlog: it is read from this iteration on, one datagram per
                # socket and iteration, while every timer that came due meanwhile fires in this very iteration
                return net.readable(loop.stalls)
        return ()

    def close(self):
        pass


class SimLoop(asyncio.BaseEventLoop):
    def __init__(self, start=1000.0, step_cap=2_000_000):
        super().__init__()
        self._now = float(start)
        self._clock_resolution = 1e-9
        self._selector = _Selector(self)
        self.exceptions = []  # contexts that reached the loop exception handler
        self.steps = 0
        self.step_cap = step_cap
        self.horizon = None  # optional absolute limit for clock jumps
        self.set_exception_handler(self._on_exception)
        self.on_exception = None
        self.on_step = None  # callable(step number), called before each loop iteration
        self._stall_t = None
        self._stall_n = 0
        self.stall_cap = 20000
        self.timer_slop = 0.0  # seconds every clock jump overshoots the next timer by
        self.force_running = False  # makes is_running() report True between iterations (foreign-thread model)
        # stalled endpoints: owner key -> virtual time until which none of its timers, tasks or deliveries run
        # (a blocked or descheduled process: its sockets buffer, its timers fire late, in their original order)
        self.stalls = {}
        self.owner_of = None  # callable(handle) -> owner key or None
        self.owner_of_context = None  # callable(contextvars.Context) -> owner key or None
        self.postponed = 0
        self._parked = {}  # owner -> runnable handles held back while it is stalled
        self.tasks = []  # every task created on this loop (runs are short): to find exceptions nobody retrieved
        self.set_task_factory(_task_factory)
        self.on_postpone = None
        self._postpone_seq = 0
        self.net = None  # SimNet: owner of the socket buffers that select() looks at
        self._timer_seq = 0

    def is_running(self):
        return getattr(self, "force_running", False) or super().is_running()

    # --- clock -----------------------------------------------------------
    def time(self):
        return self._now

    def call_at(self, when, callback, *args, context=None):
        if when is None:
            raise TypeError("when cannot be None")
        self._check_closed()
        timer = _SeqTimerHandle(when, callback, args, self, context)
        self._timer_seq += 1
        timer._seq = self._timer_seq
        heapq.heappush(self._scheduled, timer)
        timer._scheduled = True
        return timer

    def _advance(self, timeout):
        if timeout is None:
            raise SimDeadlock("nothing ready and nothing scheduled")
        if timeout <= 0:
            return
        if self._scheduled:
            when = self._scheduled[0]._when
            if when <= self._now + timeout + 1e-12:
                if when > self._now:
                    # real loops never wake exactly on time: an optional per-run lateness models scheduling latency
                    self._now = when + self.timer_slop
                return
        self._now += timeout

    def stall(self, owner, until):
        """Nothing belonging to `owner` runs before virtual time `until`: its timers, its socket deliveries and the
        steps of its tasks that are already runnable all wait (a descheduled or blocked process)."""
        if until > self.stalls.get(owner, 0.0):
            self.stalls[owner] = until
            self.call_at(until, _wake)  # the loop must come back when the stall ends

    def _postpone_stalled(self):
        now = self._now
        # (the same window in which the wake-up timer of the stall counts as due)
        for o in [o for o, u in self.stalls.items() if u < now + self._clock_resolution]:
            del self.stalls[o]
            # what was runnable when the stall began runs first, in its original order
            for h in self._parked.pop(o, []):
                self._ready.append(h)
        if not self.stalls or self.owner_of is None:
            return
        if self._ready:
            keep = []
            for h in self._ready:
                o = None if h._cancelled else self.owner_of(h)
                if o is not None and o in self.stalls:
                    self._parked.setdefault(o, []).append(h)
                    self.postponed += 1
                    if self.on_postpone is not None:
                        self.on_postpone()
                else:
                    keep.append(h)
            if len(keep) != len(self._ready):
                self._ready.clear()
                self._ready.extend(keep)
        sched = self._scheduled
        end = now + self._clock_resolution
        keep = []
        while sched and sched[0]._when < end:
            h = heapq.heappop(sched)
            if h._cancelled:
                keep.append(h)
                continue
            until = self.stalls.get(self.owner_of(h))
            if until is None:
                keep.append(h)
                continue
            # everything that fell due during the stall is due at its end, in one loop iteration like after a real
            # block, and in the original order (the handles leave the heap in that order; fresh sequence numbers keep it)
            self._postpone_seq += 1
            h._when = until
            self._timer_seq += 1
            h._seq = self._timer_seq
            self.postponed += 1
            if self.on_postpone is not None:
                self.on_postpone()
            keep.append(h)
        for h in keep:
            heapq.heappush(sched, h)

    # --- BaseEventLoop plumbing ------------------------------------------
    def _process_events(self, event_list):
        # one read callback per readable socket, queued behind what is runnable already and ahead of the timers that
        # are due - the order in which asyncio's selector loop runs them
        for rsock in event_list:
            self._ready.append(events.Handle(self.net.read_one, (rsock,), self, rsock.owner.new_context()))

    def _write_to_self(self):
        pass

    def _run_once(self):
        self.steps += 1
        if self.steps > self.step_cap:
            raise SimStepCap(f"step cap {self.step_cap} exceeded at t={self._now}")
        if self.on_step is not None:
            self.on_step(self.steps)
        if self._now != self._stall_t:
            self._stall_t = self._now
            self._stall_n = 0
        else:
            self._stall_n += 1
            if self._stall_n > self.stall_cap:
                raise SimLivelock(f"{self._stall_n} loop iterations at t={self._now} without the clock advancing")
        super()._run_once()

    def _on_exception(self, loop, context):
        exc = context.get("exception")
        entry = {
            "t": self._now,
            "message": context.get("message"),
            "exception": repr(exc),
            "type": type(exc).__name__ if exc is not None else None,
        }
        self.exceptions.append(entry)
        if self.on_exception is not None:
            self.on_exception(entry, context)

    # --- datagram endpoints ----------------------------------------------
    async def create_datagram_endpoint(self, protocol_factory, local_addr=None, remote_addr=None, *,
                                       family=0, proto=0, flags=0, reuse_port=None,
                                       allow_broadcast=None, sock=None):
        from .net import SimTransport

        assert sock is not None, "simulated endpoints are created from SimSockets only"
        protocol = protocol_factory()
        transport = SimTransport(self, sock, protocol)
        waiter = self.create_future()
        self.call_soon(transport._connection_made)
        self.call_soon(futures._set_result_unless_cancelled, waiter, None)
        await waiter
        return transport, protocol

    def unretrieved_task_exceptions(self):
        """Tasks that finished with an exception nobody looked at: asyncio reports them through the loop's exception
        handler ('Task exception was never retrieved') when the task object is collected."""
        res = []
        for t in self.tasks:
            if t.done() and not t.cancelled() and getattr(t, "_log_traceback", False):
                owner = self.owner_of_context(t.get_context()) if self.owner_of_context is not None else None
                res.append((owner, type(t.exception()).__name__, getattr(t.get_coro(), "__qualname__", "?")))
        return res

    # --- helpers -----------------------------------------------------------
    def pending_timers(self):
        return [h for h in self._scheduled if not h._cancelled]

    def close(self):
        if self.is_running():
            raise RuntimeError("Cannot close a running event loop")
        if self.is_closed():
            return
        self._ready.clear()
        self._scheduled.clear()
        self.tasks.clear()
        super().close()
