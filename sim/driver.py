"""Scenario interpreter: turns a JSON-able op list into API calls and scripted traffic.

op dict: {"t": seconds after t0, "op": kind, ...}
  host      h, ip, [ip6], layout default|multi, [unicast]
  peer      p, ip, [ports]
  register  h, svc (service dict), [allow_name_change], [ttl]
  update    h, svc
  unregister h, name
  browse    h, id, types, [delay ms], [qtype 'QU'|'QM'], [lookup_on_add]
  cancel    h, id
  lookup    h, type, name, timeout ms, [qtype]
  close     h, [mode async|sync]
  crash     h / restart h
  send      p, msg (message dict), [src_port], [dst [ip,port]], [raw hex]
  partition names[], dur
service dict: {type, name, port, props{}, server, addrs[], host_ttl, other_ttl, weight, priority}
message dict: {"qr":0|1, "id":n, "tc":0|1, "q":[[name,type,qu]..], "an":[rr..], "ns":[rr..], "ar":[rr..]}
"""
import asyncio

from . import wire
from .world import (AsyncServiceBrowser, AsyncServiceInfo, RecordingListener, service_info)
from zeroconf import DNSQuestionType, IPVersion


def build_msg(m):
    flags = 0
    if m.get("qr"):
        flags |= wire.FLAG_QR | wire.FLAG_AA
    if m.get("tc"):
        flags |= wire.FLAG_TC
    if "flags" in m:
        flags = m["flags"]
    qs = [wire.Q(q[0], q[1], bool(q[2])) for q in m.get("q", [])]
    return wire.Msg(flags, m.get("id", 0), qs, [wire.RR.from_json(r) for r in m.get("an", [])],
                    [wire.RR.from_json(r) for r in m.get("ns", [])], [wire.RR.from_json(r) for r in m.get("ar", [])])


def mk_info(svc, cls=AsyncServiceInfo):
    return service_info(svc["type"], svc["name"], svc.get("port", 80), svc.get("props", {}), svc.get("server"),
                        svc.get("addrs", ["10.0.0.1"]), svc.get("host_ttl"), svc.get("other_ttl"),
                        svc.get("weight", 0), svc.get("priority", 0), cls=cls)


def qtype_of(s):
    if s == "QU":
        return DNSQuestionType.QU
    if s == "QM":
        return DNSQuestionType.QM
    return None


class Driver:
    def __init__(self, world, scenario):
        self.w = world
        self.sc = scenario
        self.infos = {}  # (host, name.lower()) -> ServiceInfo most recently handed to the API
        self.listeners = {}  # (host, id) -> RecordingListener
        self.lookups = []  # dicts
        self.first_infos = {}
        self._withdrawn = {}  # (host, name) -> an unregister was issued since the last register
        self.stalls = []  # (t_from, t_until, host) injected process stalls
        self._op_queue = {}  # host -> API calls issued while its process was stalled, in order
        self.op_log = []  # (op index, op, api entry or None)
        self.hooks = {}  # op kind -> callable(op) for check-specific ops

    def schedule_all(self):
        for i, op in enumerate(self.sc.get("ops", [])):
            self.w.loop.call_at(self.w.t0 + op["t"], self._run_op, i, op)

    def _run_op(self, i, op):
        kind = op["op"]
        fn = getattr(self, "op_" + kind, None) or self.hooks.get(kind)
        if fn is None:
            raise ValueError(f"unknown op {kind}")
        # a shrunk scenario may have lost the endpoint an op refers to: such ops are skipped, not failed
        if "h" in op and kind != "host" and op["h"] not in self.w.hosts:
            return
        if "p" in op and kind != "peer" and op["p"] not in self.w.peers:
            return
        if "h" in op and kind not in ("host", "stall", "crash", "restart") and not op.get("_drained"):
            q = self._op_queue.get(op["h"])
            if q or self.w.loop.stalls.get(op["h"], 0.0) > self.w.now:
                # the application lives in the stalled process: its API calls happen when the process runs again, in
                # the order in which they were issued
                if q is None:
                    q = self._op_queue[op["h"]] = []
                if not q:
                    self.w.loop.call_at(self.w.loop.stalls[op["h"]] + 1e-9, self._drain_ops, op["h"])
                q.append((i, op))
                return
        entry = fn(op)
        self.op_log.append((i, op, entry))

    def _drain_ops(self, hname):
        until = self.w.loop.stalls.get(hname, 0.0)
        if until > self.w.now + 1e-7:
            self.w.loop.call_at(until + 1e-9, self._drain_ops, hname)
            return
        q = self._op_queue.get(hname) or []
        while q:
            i, op = q.pop(0)
            self._run_op(i, dict(op, _drained=True))

    # ---- endpoints
    def op_host(self, op):
        self.w.add_host(op["h"], op["ip"], op.get("ip6"), op.get("layout", "default"), op.get("unicast", False))

    def op_peer(self, op):
        self.w.add_peer(op["p"], op["ip"], tuple(op.get("ports", (wire.MDNS_PORT,))))

    def _host(self, op):
        return self.w.hosts[op["h"]]

    # ---- registration
    def op_register(self, op):
        h = self._host(op)
        if not h.alive:
            return None
        info = mk_info(op["svc"])
        if op.get("reuse") and (h.name, info.name.lower()) in self.first_infos and \
                self._withdrawn.get((h.name, info.name.lower())):
            # the application registers the object it used (and unregistered) before; registering an object that is
            # still registered is API misuse and is not generated
            info = self.first_infos[(h.name, info.name.lower())]
        self._withdrawn[(h.name, info.name.lower())] = False
        self.infos[(h.name, info.name.lower())] = info
        self.first_infos.setdefault((h.name, info.name.lower()), info)
        kw = {}
        if op.get("allow_name_change"):
            kw["allow_name_change"] = True
        if op.get("ttl") is not None:
            kw["ttl"] = op["ttl"]
        if op.get("cooperating"):
            kw["cooperating_responders"] = True  # documented flag: register without probing
        named = {}

        async def _register():
            try:
                return await h.azc.async_register_service(info, **kw)
            finally:
                named["name"] = info.name  # the object may be registered again (and renamed again) later

        e = self.w.spawn(h, "register", _register, op["svc"]["name"])
        e["info"] = info
        e["named"] = named
        e["svc"] = op["svc"]
        e["allow_name_change"] = bool(op.get("allow_name_change"))
        return e

    def op_update(self, op):
        h = self._host(op)
        if not h.alive:
            return None
        old = self.infos.get((h.name, op["svc"]["name"].lower()))
        inflight = any(e.get("info") is old and e["t_done"] is None for e in self.w.api_log if e["op"] == "register")
        if op.get("mutate") and old is not None and not inflight and old.type == op["svc"]["type"] and \
                (old.server or "").lower() == (op["svc"].get("server") or op["svc"]["name"]).lower():
            # the application keeps its ServiceInfo object, changes it in place and calls update
            fresh = mk_info(op["svc"])
            info = old
            info.port, info.weight, info.priority = fresh.port, fresh.weight, fresh.priority
            info.text = fresh.text
            info.host_ttl, info.other_ttl = fresh.host_ttl, fresh.other_ttl
            info.addresses = fresh.addresses_by_version(IPVersion.All)
        else:
            info = mk_info(op["svc"])
        self.infos[(h.name, info.name.lower())] = info
        e = self.w.spawn(h, "update", lambda: h.azc.async_update_service(info), op["svc"]["name"])
        e["info"] = info
        e["svc"] = op["svc"]
        return e

    def op_unregister(self, op):
        h = self._host(op)
        if not h.alive:
            return None
        info = self.infos.get((h.name, op["name"].lower()))
        if op.get("stale"):
            # the application still holds the ServiceInfo it registered first and unregisters through that one,
            # although the service was updated with a new object since
            info = self.first_infos.get((h.name, op["name"].lower()), info)
        if info is None:
            return None
        if any(e["op"] == "register" and e["host"] == h.name and e["t_done"] is None and
               e["args"].lower() == op["name"].lower() for e in self.w.api_log):
            # unregistering a name whose registration has not returned yet is outside every property's quantifier
            # (sequences of API calls, not overlapping ones): the call is not made
            return None
        self._withdrawn[(h.name, op["name"].lower())] = True
        e = self.w.spawn(h, "unregister", lambda: h.azc.async_unregister_service(info), op["name"])
        e["info"] = info
        return e

    # ---- browsing / lookups
    def op_browse(self, op):
        h = self._host(op)
        if not h.alive:
            return None
        on_add = None
        if op.get("lookup_on_add"):
            timeout = op["lookup_on_add"]

            def on_add(lst, zc, type_, name, timeout=timeout):
                self._start_lookup(h, type_, name, timeout, None, origin=lst.bid)

        lst = RecordingListener(self.w, h, op["id"], on_add)
        if op.get("raise_once"):
            lst.raise_once = set()
        self.listeners[(h.name, op["id"])] = lst
        kw = {}
        if op.get("delay") is not None:
            kw["delay"] = op["delay"]
        if op.get("qtype"):
            kw["question_type"] = qtype_of(op["qtype"])

        def mk():
            h.browsers[op["id"]] = AsyncServiceBrowser(h.zc, list(op["types"]), listener=lst, **kw)

        h.new_context().run(mk)
        self.w.log("api", h.name, "browse", op["id"], tuple(op["types"]))
        lst.started = self.w.now
        lst.types = list(op["types"])
        lst.cancelled = None
        return lst

    def op_cancel(self, op):
        h = self._host(op)
        b = h.browsers.pop(op["id"], None)
        if b is None:
            return None
        lst = self.listeners[(h.name, op["id"])]
        lst.cancelled = self.w.now
        return self.w.spawn(h, "cancel", b.async_cancel, op["id"])

    def _start_lookup(self, h, type_, name, timeout, qtype, origin=None):
        info = AsyncServiceInfo(type_, name)
        rec = {"host": h.name, "type": type_, "name": name, "timeout": timeout, "qtype": qtype, "origin": origin,
               "info": info, "t_start": self.w.now}
        self.lookups.append(rec)
        e = self.w.spawn(h, "lookup", lambda: info.async_request(h.zc, timeout, qtype_of(qtype)), name)
        rec["entry"] = e
        return rec

    def op_lookup(self, op):
        h = self._host(op)
        if not h.alive:
            return None
        return self._start_lookup(h, op["type"], op["name"], op["timeout"], op.get("qtype"))

    # ---- lifecycle
    def op_close(self, op):
        h = self._host(op)
        if h.azc is None:
            return None
        e = self.w.spawn(h, "close", h.azc.async_close, None)
        h.closing = True
        return e

    def op_unregister_all(self, op):
        """The application withdraws everything it registered and keeps the instance (AsyncZeroconf's public
        async_unregister_all_services)."""
        h = self._host(op)
        if h.azc is None or not h.alive:
            return None
        for (hn, nm) in list(self.infos):
            if hn == h.name:
                self._withdrawn[(hn, nm)] = True
        return self.w.spawn(h, "unregister_all", h.azc.async_unregister_all_services, None)

    def op_crash(self, op):
        self._host(op).crash()

    def op_restart(self, op):
        self._host(op).restart()

    # ---- scripted traffic
    def op_send(self, op):
        p = self.w.peers[op["p"]]
        if "raw" in op:
            data = bytes.fromhex(op["raw"])
        else:
            data = wire.encode(build_msg(op["msg"]), compress=op.get("compress", True))
        dst = tuple(op["dst"]) if op.get("dst") else None

        def go():
            p.send(data, dst, op.get("src_port", wire.MDNS_PORT))

        p.new_context().run(go)
        if op.get("then"):
            # the next packet of the same query follows from the same source (one op, so that minimisation keeps or
            # drops the query as a whole)
            nxt = dict(op["then"])
            nxt.setdefault("p", op["p"])
            nxt.setdefault("src_port", op.get("src_port", wire.MDNS_PORT))
            nxt.setdefault("op", "send")
            self.w.loop.call_at(self.w.now + nxt.pop("dt"), self.op_send, nxt)

    def op_partition(self, op):
        names = list(op["names"])
        self.w.net.partitioned |= set(names)
        self.w.log("partition", tuple(names))

        def heal():
            self.w.net.partitioned -= set(names)
            self.w.log("heal", tuple(names))

        self.w.loop.call_at(self.w.now + op["dur"], heal)

    def op_stall(self, op):
        """The host's process is descheduled for op['dur'] seconds: nothing of it runs, its sockets buffer."""
        w = self.w
        if op["h"] not in w.hosts:
            return None
        w.loop.stall(op["h"], w.now + op["dur"])
        w.net.fault_counts["stall"] = w.net.fault_counts.get("stall", 0) + 1
        w.log("stall", op["h"], op["dur"])
        self.stalls.append((w.now, w.now + op["dur"], op["h"]))
        return None

    def op_nop(self, op):
        return None
