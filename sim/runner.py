"""Batch runner shared by all checks: seeded search, known findings, shrinking, replay, evidence.

A check module provides:
    PROPERTY   'C08'
    RULE       str: how cases are generated and what makes one non-trivial
    generate(rng, tier) -> scenario (JSON-able dict; optional keys 'ops' (list) and 'faults' (dict))
    execute(scenario, seed, overrides=None) -> Outcome
    optional ASSUMPTIONS (list of str), LEVEL ('exploration'), selftest_mutants
"""
import argparse
import concurrent.futures as cf
import faulthandler
import json
import multiprocessing
import os
import random
import subprocess
import sys
import time
import traceback
import warnings

VERIF = os.path.dirname(os.path.dirname(os.path.abspath(__file__)))
HASHSEED = "0"


class Violation:
    def __init__(self, clause, detail, sig=None):
        self.clause = clause  # stable id of the violated clause, e.g. 'C08.positive-after-goodbye'
        self.detail = detail  # human readable
        self.sig = sig or {}  # attributes used to match known findings

    def to_json(self):
        return {"clause": self.clause, "detail": self.detail, "sig": self.sig}


class Outcome:
    def __init__(self):
        self.violations = []
        self.digest = None
        self.interleaving = None
        self.nontrivial = False
        self.sim_seconds = 0.0
        self.stats = {}  # counters: faults fired, probes hit, tx, deliveries
        self.decisions = {}
        self.sample = None  # small JSON-able description of the run

    def add(self, clause, detail, **sig):
        self.violations.append(Violation(clause, detail, sig))


WALL_LIMIT = float(os.environ.get("VERIF_CASE_WALL_S", "45"))


class CaseWallLimit(KeyboardInterrupt):
    """Raised by the per-case alarm (a KeyboardInterrupt so that asyncio lets it through)."""


def guarded_execute(check, scenario, seed, overrides=None):
    """check.execute under a wall-clock limit: a simulated run takes milliseconds to a few seconds; one that does not
    come back (library code spinning inside one loop iteration, virtual time standing still) is a finding - every
    property presupposes that the instance keeps running - not a reason for the whole check to hang."""
    import signal
    import threading

    if threading.current_thread() is not threading.main_thread() or not hasattr(signal, "setitimer"):
        return check.execute(scenario, seed, overrides) if overrides is not None else check.execute(scenario, seed)
    fired = [0]

    def on_alarm(signum, frame):
        fired[0] += 1
        if fired[0] > 1:
            os._exit(3)  # not even the clean-up came back
        signal.setitimer(signal.ITIMER_REAL, 30.0)
        raise CaseWallLimit()

    old = signal.signal(signal.SIGALRM, on_alarm)
    signal.setitimer(signal.ITIMER_REAL, WALL_LIMIT)
    try:
        return check.execute(scenario, seed, overrides) if overrides is not None else check.execute(scenario, seed)
    except CaseWallLimit:
        tb = traceback.format_exc()
        where = [ln.strip() for ln in tb.splitlines() if "/zeroconf/" in ln][-1:] or ["?"]
        out = Outcome()
        out.add(f"{check.PROPERTY}.no-progress", f"the simulated run did not finish within {WALL_LIMIT:.0f} s of wall time "
                f"(the event loop never got control back; interrupted in {where[0]})")
        out.digest = "no-progress"
        return out
    finally:
        signal.setitimer(signal.ITIMER_REAL, 0.0)
        signal.signal(signal.SIGALRM, old)


def ensure_hashseed(modname):
    if os.environ.get("PYTHONHASHSEED") != HASHSEED:
        env = dict(os.environ)
        env["PYTHONHASHSEED"] = HASHSEED
        os.chdir(VERIF)
        os.execve(sys.executable, [sys.executable, "-m", modname] + sys.argv[1:], env)


_KNOWN_CACHE = {}


def load_known(prop):
    if prop in _KNOWN_CACHE:
        return _KNOWN_CACHE[prop]
    _KNOWN_CACHE[prop] = res = _load_known(prop)
    return res


def _load_known(prop):
    path = os.path.join(VERIF, "known_findings.json")
    if not os.path.exists(path):
        return []
    with open(path) as f:
        data = json.load(f)
    return [k for k in data.get("findings", []) if k.get("property") == prop and k.get("status") == "known"]


def match_known(v, known):
    for k in known:
        if k.get("clause") != v.clause:
            continue
        if all(v.sig.get(a) == b for a, b in k.get("match", {}).items()):
            return k
    return None


def case_seed(base, i):
    return (base * 1_000_003 + i * 7919 + 17) & 0x7FFFFFFFFFFF


def run_case(check, seed, tier):
    rng = random.Random(f"scenario/{seed}")
    scenario = check.generate(rng, tier)
    out = guarded_execute(check, scenario, seed)
    return scenario, out


def _merge_counts(a, b):
    for k, v in b.items():
        if isinstance(v, (int, float)):
            a[k] = a.get(k, 0) + v


def _worker(args):
    modname, base, start, stride, tier, budget_s, max_cases = args
    faulthandler.dump_traceback_later(budget_s + 240, exit=True)
    warnings.simplefilter("ignore")
    import importlib

    check = importlib.import_module(modname)
    t_end = time.monotonic() + budget_s
    res = {"evaluations": 0, "nontrivial": 0, "sim_seconds": 0.0, "stats": {}, "inter": set(), "viol": [],
           "samples": [], "digests": {}, "errors": [], "clauses": {}}
    i = start
    while time.monotonic() < t_end and res["evaluations"] < max_cases:
        seed = case_seed(base, i)
        try:
            scenario, out = run_case(check, seed, tier)
        except Exception:  # harness error: never a pass, never a violation
            res["errors"].append({"seed": seed, "trace": traceback.format_exc()[-3000:]})
            if len(res["errors"]) > 5:
                break
            i += stride
            continue
        res["evaluations"] += 1
        res["sim_seconds"] += out.sim_seconds
        _merge_counts(res["stats"], out.stats)
        if out.nontrivial:
            res["nontrivial"] += 1
            if len(res["inter"]) < 400_000:
                res["inter"].add(out.interleaving)
        if len(res["digests"]) < 8:
            res["digests"][seed] = out.digest
        if len(res["samples"]) < 2 and out.sample is not None and out.nontrivial:
            res["samples"].append({"seed": seed, "run": out.sample})
        for v in out.violations:
            c = res["clauses"].setdefault(v.clause, 0)
            res["clauses"][v.clause] = c + 1
            if sum(1 for x in res["viol"] if x["v"]["clause"] == v.clause) < 3:
                res["viol"].append({"seed": seed, "scenario": scenario, "v": v.to_json()})
        i += stride
    faulthandler.cancel_dump_traceback_later()
    return res


def _digest_worker(args):
    modname, seeds, tier = args
    warnings.simplefilter("ignore")
    import importlib

    check = importlib.import_module(modname)
    out = {}
    for s in seeds:
        _, o = run_case(check, s, tier)
        out[s] = o.digest
    return out


# --------------------------------------------------------------------------- shrinking


def _fails(check, scenario, seed, clause, overrides=None):
    try:
        out = guarded_execute(check, scenario, seed, overrides)
    except Exception:
        return None
    known = load_known(check.PROPERTY) if getattr(check, "PROPERTY", None) else []
    for v in out.violations:
        # (a listed finding of the same clause is another violation: minimisation must not slide into it)
        if v.clause == clause and match_known(v, known) is None:
            return out, v
    return None


def shrink(check, scenario, seed, clause, budget_s=60.0, max_exec=400):
    """Delta-debug the op list and the fault configuration while the same clause still fails."""
    t_end = time.monotonic() + budget_s
    execs = [0]

    def ok(sc):
        if time.monotonic() > t_end or execs[0] >= max_exec:
            return False
        execs[0] += 1
        return _fails(check, sc, seed, clause) is not None

    sc = json.loads(json.dumps(scenario))
    ops = sc.get("ops")
    if isinstance(ops, list) and len(ops) > 1:
        n = 2
        while len(ops) >= 2 and time.monotonic() < t_end and execs[0] < max_exec:
            chunk = max(1, len(ops) // n)
            reduced = False
            for i in range(0, len(ops), chunk):
                cand = ops[:i] + ops[i + chunk:]
                if not cand:
                    continue
                trial = dict(sc, ops=cand)
                if ok(trial):
                    ops = cand
                    sc = trial
                    n = max(n - 1, 2)
                    reduced = True
                    break
            if not reduced:
                if chunk == 1:
                    break
                n = min(len(ops), n * 2)
    faults = sc.get("faults")
    if isinstance(faults, dict):
        for k in sorted(faults):
            if faults[k]:
                trial = json.loads(json.dumps(sc))
                trial["faults"][k] = 0
                if ok(trial):
                    sc = trial
    if hasattr(check, "shrink_extra"):
        for trial in check.shrink_extra(sc):
            if ok(trial):
                sc = trial
    return sc, execs[0]


def neutralise_decisions(check, scenario, seed, clause, decisions, budget_s=30.0):
    """With every recorded decision pinned, switch off fired faults one at a time."""
    t_end = time.monotonic() + budget_s
    ov = json.loads(json.dumps(decisions))
    fired = [k for k, v in ov.items() if isinstance(v, dict) and any(x in v for x in ("drop", "dup", "dup2", "b2b", "cor"))]
    for k in fired:
        if time.monotonic() > t_end:
            break
        trial = dict(ov)
        trial[k] = {"d": ov[k].get("d", 0)}
        if _fails(check, scenario, seed, clause, trial) is not None:
            ov = trial
    return ov


def write_replay(check, scenario, seed, v, out, overrides, shrink_execs):
    os.makedirs(os.path.join(VERIF, "replays"), exist_ok=True)
    fired = {k: d for k, d in overrides.items() if isinstance(d, dict) and any(x in d for x in ("drop", "dup", "dup2", "b2b", "cor"))}
    rep = {
        "property": check.PROPERTY, "clause": v.clause, "detail": v.detail, "sig": v.sig, "seed": seed,
        "PYTHONHASHSEED": HASHSEED, "digest": out.digest, "scenario": scenario,
        "fault_trace": fired, "decisions": overrides, "shrink_executions": shrink_execs,
    }
    name = f"{check.PROPERTY}-{v.clause.split('.', 1)[-1]}-{seed}.json"
    path = os.path.join(VERIF, "replays", name)
    with open(path, "w") as f:
        json.dump(rep, f, indent=1, default=str)
    return path


def do_replay(check, path):
    with open(path) as f:
        rep = json.load(f)
    out = guarded_execute(check, rep["scenario"], rep["seed"], rep.get("decisions"))
    hit = [v for v in out.violations if v.clause == rep["clause"]]
    same_digest = out.digest == rep.get("digest")
    return rep, out, hit, same_digest


# --------------------------------------------------------------------------- main


def main(check, argv=None):
    ensure_hashseed(check.__name__)
    warnings.simplefilter("ignore")
    ap = argparse.ArgumentParser()
    ap.add_argument("--tier", default=os.environ.get("VERIF_TIER", "quick"), choices=["quick", "thorough"])
    ap.add_argument("--seed", type=int, default=int(os.environ.get("VERIF_SEED", "0") or 0))
    ap.add_argument("--budget", type=float, default=None, help="wall seconds for the search phase")
    ap.add_argument("--jobs", type=int, default=int(os.environ.get("VERIF_JOBS", "0") or 0))
    ap.add_argument("--max-cases", type=int, default=10**9)
    ap.add_argument("--replay", default=None)
    ap.add_argument("--one", type=int, default=None, help="run one case seed verbosely")
    ap.add_argument("--no-evidence", action="store_true")
    a = ap.parse_args(argv)
    prop = check.PROPERTY
    modname = check.__name__

    if a.replay:
        rep, out, hit, same = do_replay(check, a.replay)
        for v in out.violations:
            print(f"  violation clause={v.clause}: {v.detail}")
        print(f"replay digest {'matches' if same else 'DIFFERS'}: {out.digest} vs {rep.get('digest')}")
        if hit:
            print(f"VIOLATION property={prop} replay={a.replay}")
            return 1
        print("replay did not reproduce the recorded clause")
        return 2 if not same else 0

    if a.one is not None:
        scenario, out = run_case(check, a.one, a.tier)
        print(json.dumps(scenario, indent=1, default=str)[:6000])
        print("digest", out.digest, "nontrivial", out.nontrivial, "stats", out.stats)
        for v in out.violations:
            print("VIOL", v.clause, v.detail, v.sig)
        return 1 if out.violations else 0

    t0 = time.monotonic()
    jobs = a.jobs or min(16, os.cpu_count() or 4)
    budget = a.budget if a.budget is not None else (getattr(check, "QUICK_BUDGET", 25.0) if a.tier == "quick"
                                                    else getattr(check, "THOROUGH_BUDGET", 600.0))
    ctx = multiprocessing.get_context("fork")
    results = []
    harness_errors = []
    with cf.ProcessPoolExecutor(max_workers=jobs, mp_context=ctx) as ex:
        futs = [ex.submit(_worker, (modname, a.seed, w, jobs, a.tier, budget, a.max_cases // jobs + 1))
                for w in range(jobs)]
        # determinism self-test: the first seeds of worker 0 and 1 are re-run in other processes
        probe_seeds = [case_seed(a.seed, i) for i in range(0, 2 * jobs, max(1, jobs // 4))][:8]
        dfuts = [ex.submit(_digest_worker, (modname, probe_seeds, a.tier)) for _ in range(2)]
        for f in futs:
            try:
                results.append(f.result(timeout=budget + 300))
            except Exception as e:  # worker died or timed out
                harness_errors.append(f"worker failed: {e!r}")
        dres = []
        for f in dfuts:
            try:
                dres.append(f.result(timeout=300))
            except Exception as e:
                harness_errors.append(f"determinism worker failed: {e!r}")
    det_ok = len(dres) == 2 and dres[0] == dres[1]
    if len(dres) == 2 and not det_ok:
        harness_errors.append(f"NONDETERMINISM: digests differ between processes: {dres}")
    for r in results:
        for s, d in r["digests"].items():
            if dres and s in dres[0] and dres[0][s] != d:
                harness_errors.append(f"NONDETERMINISM: seed {s} digest {d} vs {dres[0][s]}")
                det_ok = False

    total = {"evaluations": 0, "nontrivial": 0, "sim_seconds": 0.0}
    stats = {}
    inter = set()
    viols = []
    samples = []
    clauses = {}
    for r in results:
        total["evaluations"] += r["evaluations"]
        total["nontrivial"] += r["nontrivial"]
        total["sim_seconds"] += r["sim_seconds"]
        _merge_counts(stats, r["stats"])
        inter |= r["inter"]
        viols += r["viol"]
        samples += r["samples"]
        _merge_counts(clauses, r["clauses"])
        for e in r["errors"]:
            harness_errors.append(f"seed {e['seed']}: {e['trace']}")
    search_wall = time.monotonic() - t0

    # regression corpus: minimised failing histories of defects that were repaired; each is replayed on every run so
    # that a defect that returns is reported at once instead of waiting for the search to find it again
    reg_dir = os.path.join(VERIF, "regression", prop)
    reg_run = 0
    reg_viols = []
    if os.path.isdir(reg_dir):
        for fn in sorted(os.listdir(reg_dir)):
            if not fn.endswith(".json"):
                continue
            try:
                rep = json.load(open(os.path.join(reg_dir, fn)))
                rout = guarded_execute(check, rep["scenario"], rep["seed"], rep.get("decisions"))
                reg_run += 1
                for v in rout.violations:
                    reg_viols.append((fn, rep, rout, v))
            except Exception:
                harness_errors.append(f"regression {fn}: {traceback.format_exc()[-1500:]}")

    known = load_known(prop)
    known_hits = {}
    new_by_clause = {}
    for item in viols:
        v = Violation(item["v"]["clause"], item["v"]["detail"], item["v"]["sig"])
        k = match_known(v, known)
        if k is not None:
            known_hits.setdefault(k["id"], (k, item))
        else:
            new_by_clause.setdefault(v.clause, item)

    exit_code = 0
    replay_paths = []
    for kid, (k, item) in sorted(known_hits.items()):
        print(f"KNOWN-FINDING: property={prop} {k['what']} [{kid}; e.g. seed {item['seed']}]")
    for clause, item in sorted(new_by_clause.items()):
        seed = item["seed"]
        scenario = item["scenario"]
        try:
            sc, nexec = shrink(check, scenario, seed, clause, budget_s=45.0 if a.tier == "quick" else 180.0)
            got = _fails(check, sc, seed, clause)
            if got is None:
                sc = scenario
                got = _fails(check, sc, seed, clause)
            if got is None:
                harness_errors.append(f"violation {clause} at seed {seed} did not reproduce in the parent process")
                continue
            out, v = got
            ov = neutralise_decisions(check, sc, seed, clause, out.decisions)
            got2 = _fails(check, sc, seed, clause, ov)
            if got2 is None:
                ov = out.decisions
                got2 = _fails(check, sc, seed, clause, ov)
            out, v = got2
            path = write_replay(check, sc, seed, v, out, ov, nexec)
            # the minimised file must fail the same way in a fresh interpreter
            pr = subprocess.run([sys.executable, "-m", modname, "--replay", path], cwd=VERIF,
                                capture_output=True, text=True, timeout=300,
                                env=dict(os.environ, PYTHONHASHSEED=HASHSEED))
            if pr.returncode != 1 or "digest matches" not in pr.stdout:
                harness_errors.append(f"replay of {path} in a fresh interpreter did not reproduce: rc={pr.returncode} "
                                      f"{pr.stdout[-500:]} {pr.stderr[-500:]}")
                continue
            print(f"  {v.clause}: {v.detail}")
            print(f"VIOLATION property={prop} replay={path}")
            replay_paths.append(path)
            exit_code = 1
        except Exception:
            harness_errors.append(f"shrink/replay failed for {clause} seed {seed}: {traceback.format_exc()[-2000:]}")

    seen_reg = set()
    for fn, rep, rout, v in reg_viols:
        if match_known(v, known) is not None or (fn, v.clause) in seen_reg:
            continue
        seen_reg.add((fn, v.clause))
        path = write_replay(check, rep["scenario"], rep["seed"], v, rout, rep.get("decisions") or {}, 0)
        print(f"  {v.clause}: {v.detail} [regression corpus: {fn}, {rep.get('defect', '')}]")
        print(f"VIOLATION property={prop} replay={path}")
        replay_paths.append(path)
        exit_code = 1

    wall = time.monotonic() - t0
    ev = total["evaluations"]
    if ev == 0:
        harness_errors.append("no case was evaluated")
    cov = {
        "evaluations": ev,
        "distinct_nontrivial": len(inter),
        "rule": check.RULE + " " + getattr(check, "DISTINCT_RULE", "Distinct = distinct digests of the per-host sequence of "
                                           "event kinds (api call/return, multicast tx, unicast tx, delivery, callback) "
                                           "among non-trivial runs."),
        "samples": samples[:3] if samples else [{"note": "no non-trivial sample recorded"}],
        "nontrivial_runs": total["nontrivial"],
        "runs_per_hour": int(ev / max(search_wall, 1e-9) * 3600),
        "simulated_seconds": round(total["sim_seconds"], 1),
        "simulated_hours_per_wall_hour": round(total["sim_seconds"] / max(search_wall, 1e-9), 1),
        "faults_and_probes": {k: stats[k] for k in sorted(stats)},
        "violating_runs_by_clause": clauses,
        "known_findings_seen": sorted(known_hits),
        "determinism_selftest": {"seeds_rerun_in_two_other_processes": len(dres[0]) if dres else 0, "identical": det_ok,
                                 "PYTHONHASHSEED": HASHSEED},
        "workers": jobs,
        "regression_histories_replayed": reg_run,
        "components_real": _components()[0],
        "components_stub": _components()[1],
        "replays": replay_paths,
        "exhaustive": False,
    }
    evidence = {
        "property_id": prop, "tier": a.tier, "seed": a.seed, "level": getattr(check, "LEVEL", "exploration"),
        "coverage": cov, "assumptions": getattr(check, "ASSUMPTIONS", []), "wall_s": round(wall, 2),
        "violations": len(new_by_clause) + len(seen_reg),
    }
    if harness_errors:
        evidence["coverage"]["harness_errors"] = harness_errors[:10]
    if not a.no_evidence:
        os.makedirs(os.path.join(VERIF, "evidence"), exist_ok=True)
        with open(os.path.join(VERIF, "evidence", f"{prop}.json"), "w") as f:
            json.dump(evidence, f, indent=1, default=str)
    print(f"{prop} {a.tier}: {ev} runs ({total['nontrivial']} non-trivial, {len(inter)} distinct interleavings), "
          f"{cov['runs_per_hour']} runs/h, {cov['simulated_seconds']} simulated s, wall {wall:.1f}s, "
          f"violations={len(new_by_clause)} known={len(known_hits)}")
    if harness_errors:
        for e in harness_errors[:10]:
            print("HARNESS-ERROR:", e, file=sys.stderr)
        return 2 if exit_code == 0 else exit_code
    return exit_code


def _components():
    from .world import REAL_COMPONENTS, STUB_COMPONENTS

    return REAL_COMPONENTS, STUB_COMPONENTS
