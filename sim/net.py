"""Simulated multicast link: sockets, transports, deliveries and faults.

Every delivery is a timer on the SimLoop, so the loop's heap totally orders all
events.  Every per-delivery fault decision comes from World.decide().
"""
import socket as _socket

from . import wire

AF_INET = _socket.AF_INET
AF_INET6 = _socket.AF_INET6


def is_mcast(addr):
    return addr in (wire.MCAST4, wire.MCAST6)


def norm_ip(addr):
    """Strip v4-mapped prefix and any %scope."""
    if addr.startswith("::ffff:") and "." in addr:
        addr = addr[7:]
    if "%" in addr:
        addr = addr.split("%", 1)[0]
    return addr


import contextvars as _cv

_NO_HOST = _cv.Context()  # context of events that belong to the network, not to a simulated process


class SimSocket:
    """Stands in for socket.socket at the three places the library touches one."""

    def __init__(self, net, owner, family, bind_ip, port, joined, label, dual=False):
        self.net = net
        self.owner = owner  # Host or Peer (has .name, .ips)
        self.family = family
        self.bind_ip = bind_ip  # '' = any
        self.port = port
        self.joined = joined  # member of the mDNS group
        self.label = label
        self.dual = dual  # AF_INET6 socket that also takes v4 (IPV6_V6ONLY off)
        self.idx = net._next_fd()
        self.transport = None
        self.closed = False
        self.backlog = []
        self.rxq = []  # datagrams that have arrived and wait to be read: (data, addr, tx_idx, copy)
        self.on_datagram = None  # for scripted peers: callable(data, addr, sock)
        net.sockets.append(self)

    # socket.socket surface used by zeroconf
    def fileno(self):
        return self.idx

    def getsockname(self):
        if self.family == AF_INET6:
            return (self.bind_ip or "::", self.port, 0, 0)
        return (self.bind_ip or "0.0.0.0", self.port)

    def close(self):
        self.closed = True

    def __repr__(self):
        return f"<SimSocket {self.label} fd={self.idx}>"

    def accepts_family(self, v6):
        if v6:
            return self.family == AF_INET6
        return self.family == AF_INET or self.dual

    def source_ip(self, v6):
        if self.bind_ip:
            return self.bind_ip
        ips = self.owner.ips
        for ip in ips:
            if (":" in ip) == v6:
                return ip
        return ips[0]


class SimTransport:
    """Datagram transport with the observable semantics of asyncio's selector transport."""

    def __init__(self, loop, sock, protocol):
        self._loop = loop
        self._sock = sock
        self._protocol = protocol
        self._closing = False
        self._conn_lost = False
        self._receiving = False
        sock.transport = self

    def _connection_made(self):
        self._protocol.connection_made(self)
        if not self._closing:
            self._receiving = True
            # what arrived before the transport existed sits in the socket buffer and is read like anything else
            backlog, self._sock.backlog = self._sock.backlog, []
            for data, addr in backlog:
                self._sock.rxq.append((data, addr, -1, 0))

    def get_extra_info(self, name, default=None):
        if name == "socket":
            return self._sock
        if name == "sockname":
            return self._sock.getsockname()
        return default

    def is_closing(self):
        return self._closing

    def get_protocol(self):
        return self._protocol

    def close(self):
        if self._closing:
            return
        self._closing = True
        self._receiving = False
        self._loop.call_soon(self._call_connection_lost, None)

    def abort(self):
        self.close()

    def _call_connection_lost(self, exc):
        try:
            self._protocol.connection_lost(exc)
        finally:
            self._sock.closed = True
            self._conn_lost = True

    def sendto(self, data, addr=None):
        if not data:
            return
        if self._conn_lost:
            # asyncio: self._sock is None here -> AttributeError -> _fatal_error -> exception handler
            self._sock.net.world.note("tx-after-close", self._sock.label)
            self._loop.call_exception_handler({
                "message": "Fatal error on transport (sendto after the socket was closed)",
                "exception": AttributeError("'NoneType' object has no attribute 'sendto'"),
                "transport": self,
            })
            return
        self._sock.net.send(self._sock, bytes(data), addr)


class FaultConfig:
    """Per-run link behaviour. All probabilities are per (transmission, receiver)."""

    FIELDS = ("max_delay_us", "loop_delay_us", "drop_p", "dup_p", "b2b_p", "grid_p", "corrupt_p", "extreme_p")

    def __init__(self, **kw):
        self.max_delay_us = 100_000
        self.loop_delay_us = 1_000
        self.drop_p = 0.0
        self.dup_p = 0.0  # independently delayed second copy
        self.b2b_p = 0.0  # back-to-back duplicate (same instant, same socket)
        self.grid_p = 0.5  # probability that a delay is a whole number of ms
        self.corrupt_p = 0.0
        self.extreme_p = 0.0  # probability that a delay is (next to) none or (next to) the maximum: worst-case reordering
        for k, v in kw.items():
            if k not in self.FIELDS:
                raise KeyError(k)
            setattr(self, k, v)

    def to_json(self):
        return {k: getattr(self, k) for k in self.FIELDS}


class Tx:
    __slots__ = ("idx", "t", "host", "sock", "src", "dst", "data", "_msg", "_dec")

    def __init__(self, idx, t, host, sock, src, dst, data):
        self.idx, self.t, self.host, self.sock, self.src, self.dst, self.data = idx, t, host, sock, src, dst, data
        self._dec = False
        self._msg = None

    @property
    def msg(self):
        if not self._dec:
            self._msg = wire.try_decode(self.data)
            self._dec = True
        return self._msg

    @property
    def multicast(self):
        return is_mcast(self.dst[0])


class SimNet:
    def __init__(self, world, faults=None):
        self.world = world
        self.loop = world.loop
        self.faults = faults or FaultConfig()
        self.sockets = []
        self._fd = 2
        self.trace = []  # every transmission, before faults
        self.deliveries = 0
        self.fault_counts = {"drop": 0, "dup": 0, "b2b": 0, "corrupt": 0, "delay": 0, "partition_drop": 0,
                             "discard_closed": 0, "forced_drop": 0}
        self.partitioned = set()  # owner names currently cut off
        self.drop_tx = None  # (tx_index, receiver-name or None): the single forced loss (C07)
        self.drop_after = None  # (sender-name, seconds after t0, n, receiver-name or None): the same, placed by time
        self._drop_after_seen = {}
        self.b2b_all = False  # C16: duplicate every delivery back to back
        self.b2b_filter = None
        self.b2b_gap = 0.0  # seconds of virtual time between a datagram and its back-to-back copy
        self.content_keyed = False
        self.corruptor = None  # callable(data, rng) -> data
        self.on_tx = None  # observer(tx)
        self.on_rx = None  # observer(t, sock, data, src, tx_idx, copy)
        self.after_rx = None  # observer(sock), right after datagram_received returned

    def _next_fd(self):
        self._fd += 1
        return self._fd

    # ------------------------------------------------------------------ send
    def send(self, sock, data, addr):
        world = self.world
        dst_ip = norm_ip(addr[0])
        dst_port = addr[1]
        v6 = ":" in dst_ip
        src = (sock.source_ip(v6), sock.port)
        tx = Tx(len(self.trace), self.loop.time(), sock.owner.name, sock.label, src, (dst_ip, dst_port), data)
        self.trace.append(tx)
        world.log("tx", tx.idx, sock.owner.name, sock.label, dst_ip, dst_port, data)
        if self.on_tx is not None:
            self.on_tx(tx)
        cut_off = sock.owner.name in self.partitioned
        if is_mcast(dst_ip):
            receivers = [s for s in self.sockets
                         if not s.closed and s.port == dst_port and s.joined and s.accepts_family(v6)]
        else:
            cands = [s for s in self.sockets
                     if not s.closed and s.port == dst_port and dst_ip in s.owner.ips
                     and s.bind_ip in ("", dst_ip) and s.accepts_family(v6)]
            if len(cands) > 1:
                # the kernel may hand a unicast datagram to any one of several matching sockets
                k = world.decide(f"ucast/{cands[0].owner.name}", lambda r: r.randrange(len(cands)))
                cands = [cands[k % len(cands)]]
            receivers = cands
        for rsock in receivers:
            # a partition cuts the link, not the loop-back inside the sender's own IP stack
            if (cut_off or rsock.owner.name in self.partitioned) and rsock.owner is not sock.owner:
                self.fault_counts["partition_drop"] += 1
                continue
            self._schedule(tx, sock, rsock, src, v6)

    def _schedule(self, tx, ssock, rsock, src, v6):
        f = self.faults
        world = self.world
        local = rsock.owner is ssock.owner
        maxd = f.loop_delay_us if local else f.max_delay_us

        def draw(r):
            d = {}
            if maxd > 0:
                if r.random() < f.grid_p and maxd >= 1000:
                    d["d"] = r.randrange(0, maxd // 1000 + 1) * 1000
                else:
                    d["d"] = r.randrange(0, maxd + 1)
            else:
                d["d"] = 0
            if f.extreme_p and maxd > 0 and r.random() < f.extreme_p:
                d["d"] = r.choice([0, 0, maxd, maxd - r.randrange(0, maxd // 4 + 1), r.randrange(0, maxd // 20 + 1)])
            if f.drop_p and r.random() < f.drop_p:
                d["drop"] = 1
            if f.dup_p and r.random() < f.dup_p:
                # the second copy is a datagram like any other: its own delay, within the link's maximum
                d["dup2"] = r.randrange(0, maxd + 1) if maxd > 0 else 0
            if f.b2b_p and r.random() < f.b2b_p:
                d["b2b"] = 1
            if f.corrupt_p and r.random() < f.corrupt_p:
                d["cor"] = r.randrange(1 << 30)
            return d

        if self.content_keyed:
            # decisions keyed by what is sent, not by how many datagrams were sent before (metamorphic runs stay
            # aligned even when one run transmits an extra datagram)
            import hashlib

            hh = hashlib.blake2b(repr((tx.t, tx.data)).encode(), digest_size=6).hexdigest()
            dec = world.decide(f"net/{ssock.owner.name}>{rsock.label}/{hh}", draw)
        else:
            dec = world.decide(f"net/{ssock.owner.name}>{rsock.label}", draw)
        if self.drop_tx is not None and self.drop_tx[0] == tx.idx and self.drop_tx[1] in (None, rsock.owner.name):
            self.fault_counts["forced_drop"] += 1
            world.log("drop", tx.idx, rsock.label)
            return
        if self.drop_after is not None:
            # the single forced loss, placed relative to an operation: the n-th transmission of a host from a time on
            dh, dt, dn, drcv = self.drop_after
            if tx.host == dh and tx.t >= world.t0 + dt - 1e-9:
                if tx.idx not in self._drop_after_seen:
                    self._drop_after_seen[tx.idx] = len(self._drop_after_seen)
                if self._drop_after_seen[tx.idx] == dn and drcv in (None, rsock.owner.name):
                    self.fault_counts["forced_drop"] += 1
                    world.log("drop", tx.idx, rsock.label)
                    return
        if dec.get("drop"):
            self.fault_counts["drop"] += 1
            world.log("drop", tx.idx, rsock.label)
            return
        data = tx.data
        if "cor" in dec and self.corruptor is not None:
            import random as _r

            data = self.corruptor(data, _r.Random(dec["cor"]))
            self.fault_counts["corrupt"] += 1
        if dec["d"]:
            self.fault_counts["delay"] += 1
        copies = 1
        if dec.get("b2b") or (self.b2b_all and (self.b2b_filter is None or self.b2b_filter(tx, rsock))):
            copies = 2
            self.fault_counts["b2b"] += 1
        src_ip = src[0]
        if rsock.family == AF_INET6:
            if ":" not in src_ip:
                src_ip = "::ffff:" + src_ip
            addr = (src_ip, src[1], 0, 0)
        else:
            addr = (src_ip, src[1])
        # the arrival of a datagram at a socket is the network's doing: it happens whatever the receiving process is
        # up to (an empty context: the timer belongs to no host and is never held back by a stall)
        self.loop.call_at(self.loop.time() + dec["d"] / 1e6, self._arrive, rsock, data, addr, tx.idx, copies,
                          context=_NO_HOST.copy())
        if "dup2" in dec or "dup" in dec:
            # ("dup": recorded decisions of older replay files, where the copy's delay was drawn on top of the first's)
            self.fault_counts["dup"] += 1
            dd = dec["dup2"] if "dup2" in dec else dec["d"] + dec["dup"]
            self.loop.call_at(self.loop.time() + dd / 1e6, self._arrive, rsock, data, addr,
                              tx.idx, 1, context=_NO_HOST.copy())

    # --------------------------------------------------------------- arrive / read
    def _arrive(self, rsock, data, addr, tx_idx, copies, first_copy=0):
        """The datagram (and its back-to-back link-layer copy) reaches the socket buffer."""
        world = self.world
        for copy in range(first_copy, copies):
            if copy and self.b2b_gap and first_copy == 0:
                # the link-layer copy reaches the socket a moment later
                self.loop.call_at(self.loop.time() + self.b2b_gap, self._arrive, rsock, data, addr, tx_idx, copies, 1,
                                  context=_NO_HOST.copy())
                return
            if rsock.closed or (rsock.transport is not None and not rsock.transport._receiving
                                and rsock.transport._closing):
                self.fault_counts["discard_closed"] += 1
                world.log("rx-discard", tx_idx, rsock.label)
                return
            if rsock.on_datagram is not None:
                # scripted peers have no event loop: they see the datagram as it arrives
                self.deliveries += 1
                world.log("rx", tx_idx, rsock.label, copy)
                if self.on_rx is not None:
                    self.on_rx(self.loop.time(), rsock, data, addr, tx_idx, copy)
                ctx = rsock.owner.new_context()
                ctx.run(rsock.on_datagram, data, addr, rsock)
            elif rsock.transport is None or not rsock.transport._receiving:
                rsock.backlog.append((data, addr))
            else:
                rsock.rxq.append((data, addr, tx_idx, copy))

    def readable(self, stalled):
        """Sockets of running instances with something to read, in descriptor order (what select() reports)."""
        return [s for s in self.sockets if s.rxq and not s.closed and s.transport is not None
                and s.transport._receiving and s.owner.name not in stalled]

    def read_one(self, rsock):
        """asyncio's datagram transport reads ONE datagram per readiness event, i.e. per loop iteration and socket."""
        world = self.world
        if not rsock.rxq:
            return
        data, addr, tx_idx, copy = rsock.rxq.pop(0)
        if rsock.closed or rsock.transport is None or not rsock.transport._receiving:
            self.fault_counts["discard_closed"] += 1
            world.log("rx-discard", tx_idx, rsock.label)
            rsock.rxq.clear()
            return
        self.deliveries += 1
        world.log("rx", tx_idx, rsock.label, copy)
        if self.on_rx is not None:
            self.on_rx(self.loop.time(), rsock, data, addr, tx_idx, copy)
        try:
            rsock.transport._protocol.datagram_received(data, addr)
        except Exception as exc:  # noqa
            # asyncio's datagram transport calls datagram_received from its read callback: an exception goes to the
            # loop's exception handler, the transport stays open and the next datagram is read as usual
            self.loop.call_exception_handler({
                "message": f"Exception in callback {type(rsock.transport._protocol).__name__}.datagram_received()",
                "exception": exc, "transport": rsock.transport})
        finally:
            if self.after_rx is not None:
                self.after_rx(rsock)
