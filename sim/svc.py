"""Service descriptions (JSON dicts) and the records RFC 6763 says they stand for, in wire.RR terms.

Independent of zeroconf: used by generators and by oracles (ModelRegistry).
"""
from . import wire

HOST_TTL = 120
OTHER_TTL = 4500
ENUM = "_services._dns-sd._udp.local."


def txt_bytes(props):
    out = b""
    for k, v in props.items():
        kb = k.encode() if isinstance(k, str) else k
        if v is None:
            item = kb
        else:
            vb = v if isinstance(v, bytes) else str(v).encode()
            item = kb + b"=" + vb
        out += bytes([len(item)]) + item
    return out


def pack_addr(a):
    return wire.ip6(a) if ":" in a else wire.ip4(a)


class SvcRecords:
    def __init__(self, svc):
        self.svc = svc
        name = svc["name"]
        type_ = svc["type"]
        server = svc.get("server") or name
        ht = svc.get("host_ttl", HOST_TTL) if svc.get("host_ttl") is not None else HOST_TTL
        ot = svc.get("other_ttl", OTHER_TTL) if svc.get("other_ttl") is not None else OTHER_TTL
        self.name, self.type, self.server, self.host_ttl, self.other_ttl = name, type_, server, ht, ot
        self.ptr = wire.RR(type_, wire.T_PTR, ot, name)
        self.srv = wire.RR(name, wire.T_SRV, ht, (svc.get("priority", 0), svc.get("weight", 0), svc.get("port", 80), server),
                           flush=True)
        self.txt = wire.RR(name, wire.T_TXT, ot, txt_bytes(svc.get("props", {})), flush=True)
        self.addrs = []
        fam = set()
        for a in svc.get("addrs", ["10.0.0.1"]):
            t = wire.T_AAAA if ":" in a else wire.T_A
            fam.add(t)
            self.addrs.append(wire.RR(server, t, ht, pack_addr(a), flush=True))
        missing = sorted({wire.T_A, wire.T_AAAA} - fam)
        self.nsec = wire.RR(name, wire.T_NSEC, ht, (name, missing), flush=True) if missing else None

    def all(self):
        return [self.ptr, self.srv, self.txt] + self.addrs + ([self.nsec] if self.nsec else [])

    def addr_and_nsec(self):
        return self.addrs + ([self.nsec] if self.nsec else [])

    def own_idents(self):
        return {r.ident() for r in self.all()}


def gen_services(rng, n, types=None, hosts=None, v6=True, custom_ttl=True, case_mix=False, prefix="Svc",
                 subtypes=False):
    """Draw n service dicts with shared/distinct hosts, v4/v6/dual addresses, optional custom TTLs."""
    types = types or ["_http._tcp.local.", "_ipp._tcp.local.", "_x-y._udp.local."]
    hosts = hosts or ["hosta.local.", "hostb.local.", "HostC.local."]
    out = []
    for i in range(n):
        t = rng.choice(types)
        inst = f"{prefix}{i}"
        if case_mix and rng.random() < 0.3:
            inst = inst.upper()
        if rng.random() < 0.15:
            inst += " Printer"
        name = f"{inst}.{t}"
        server = rng.choice(hosts)
        k = rng.random()
        hid = hosts.index(server) + 1
        if not v6 or k < 0.5:
            addrs = [f"10.0.{hid}.{i + 1}"]
        elif k < 0.75:
            addrs = [f"fe80::{hid}:{i + 1}"]
        else:
            addrs = [f"10.0.{hid}.{i + 1}", f"fe80::{hid}:{i + 1}"]
        if rng.random() < 0.2:
            addrs.append(f"10.9.{hid}.{i + 1}")
        svc = {"type": t, "name": name, "port": 1000 + rng.randrange(9000), "server": server, "addrs": addrs,
               "props": rng.choice([{}, {"path": "/"}, {"a": "1", "b": None}, {"k": "v" * rng.randrange(1, 40)}]),
               "weight": rng.choice([0, 0, 5]), "priority": rng.choice([0, 0, 10])}
        if custom_ttl and rng.random() < 0.3:
            svc["host_ttl"] = rng.choice([10, 60, 120, 240])
            svc["other_ttl"] = rng.choice([1200, 2000, 4500, 9000])
        out.append(svc)
    return out
