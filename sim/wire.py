"""Independent DNS / mDNS wire codec (RFC 1035, RFC 6762), no import from zeroconf.

Names are str in presentation form with a trailing dot ('a.b.local.'); every
label is UTF-8 text with 'replace' on invalid bytes (same reading a human tool
such as wireshark gives).  The decoder is strict: backward-only compression
pointers, labels <= 63, names <= 255 octets, rdlength fully consumed, no
trailing bytes, header counts equal to entries present.
"""
import struct

T_A, T_CNAME, T_PTR, T_HINFO, T_TXT, T_AAAA, T_SRV, T_NSEC, T_ANY = 1, 5, 12, 13, 16, 28, 33, 47, 255
C_IN = 1
FLAG_QR = 0x8000
FLAG_AA = 0x0400
FLAG_TC = 0x0200
MDNS_PORT = 5353
MCAST4 = "224.0.0.251"
MCAST6 = "ff02::fb"
MAX_ABS = 8966

TYPE_NAMES = {1: "A", 5: "CNAME", 12: "PTR", 13: "HINFO", 16: "TXT", 28: "AAAA", 33: "SRV", 47: "NSEC", 255: "ANY"}


class WireError(Exception):
    pass


class Q:
    __slots__ = ("name", "type", "cls", "qu")

    def __init__(self, name, type_, qu=False, cls=C_IN):
        self.name, self.type, self.cls, self.qu = name, type_, cls, bool(qu)

    def key(self):
        return (self.name.lower(), self.type, self.cls)

    def __repr__(self):
        return f"Q({self.name},{TYPE_NAMES.get(self.type, self.type)},{'QU' if self.qu else 'QM'})"

    def to_json(self):
        return [self.name, self.type, self.qu]


class RR:
    """A resource record. rdata by type:
    A/AAAA: bytes; PTR/CNAME: str; TXT: bytes; SRV: (prio, weight, port, target);
    HINFO: (cpu, os) bytes; NSEC: (next_name, [types]); other: bytes.
    """

    __slots__ = ("name", "type", "cls", "flush", "ttl", "rdata", "scope")

    def __init__(self, name, type_, ttl, rdata, flush=False, cls=C_IN):
        self.name, self.type, self.cls, self.flush, self.ttl, self.rdata = name, type_, cls, bool(flush), ttl, rdata
        self.scope = None  # IPv6 scope of the receiving socket (AAAA only; part of the record identity, C20)

    def ident(self):
        """Record identity: owner (case-insensitive), type, class, rdata (targets case-insensitive)."""
        rd = self.rdata
        if self.type in (T_PTR, T_CNAME):
            rd = rd.lower()
        elif self.type == T_SRV:
            rd = (rd[0], rd[1], rd[2], rd[3].lower())
        elif self.type == T_NSEC:
            rd = (rd[0], tuple(sorted(rd[1])))
        elif self.type == T_HINFO:
            rd = (bytes(rd[0]), bytes(rd[1]))
        elif isinstance(rd, (bytes, bytearray)):
            rd = bytes(rd)
            if self.type == T_AAAA and self.scope is not None:
                rd = (rd, self.scope)
        return (self.name.lower(), self.type, self.cls, rd)

    def rrset(self):
        return (self.name.lower(), self.type, self.cls)

    def __repr__(self):
        return (f"RR({self.name},{TYPE_NAMES.get(self.type, self.type)},ttl={self.ttl}"
                f"{',flush' if self.flush else ''},{self.rdata!r})")

    def to_json(self):
        rd = self.rdata
        if isinstance(rd, (bytes, bytearray)):
            rd = {"hex": bytes(rd).hex()}
        elif self.type == T_HINFO:
            rd = [rd[0].hex(), rd[1].hex()]
        elif self.type == T_NSEC:
            rd = [rd[0], list(rd[1])]
        elif isinstance(rd, tuple):
            rd = list(rd)
        return [self.name, self.type, self.ttl, int(self.flush), rd]

    @staticmethod
    def from_json(j):
        name, type_, ttl, flush, rd = j
        if isinstance(rd, dict):
            rd = bytes.fromhex(rd["hex"])
        elif type_ == T_HINFO:
            rd = (bytes.fromhex(rd[0]), bytes.fromhex(rd[1]))
        elif type_ == T_NSEC:
            rd = (rd[0], list(rd[1]))
        elif isinstance(rd, list):
            rd = tuple(rd)
        return RR(name, type_, ttl, rd, bool(flush))


class Msg:
    __slots__ = ("id", "flags", "questions", "answers", "authorities", "additionals")

    def __init__(self, flags=0, id_=0, questions=None, answers=None, authorities=None, additionals=None):
        self.id, self.flags = id_, flags
        self.questions = list(questions or [])
        self.answers = list(answers or [])
        self.authorities = list(authorities or [])
        self.additionals = list(additionals or [])

    @property
    def is_response(self):
        return bool(self.flags & FLAG_QR)

    @property
    def tc(self):
        return bool(self.flags & FLAG_TC)

    def records(self):
        return self.answers + self.authorities + self.additionals

    def __repr__(self):
        return (f"Msg(id={self.id},flags={self.flags:#06x},q={self.questions},an={self.answers},"
                f"ns={self.authorities},ar={self.additionals})")


# --------------------------------------------------------------------------- encoder


def _split(name):
    if name.endswith("."):
        name = name[:-1]
    if name == "":
        return []
    return name.split(".")


class _Enc:
    def __init__(self, compress=True):
        self.buf = bytearray()
        self.names = {}
        self.compress = compress

    def name(self, name):
        labels = _split(name)
        for i in range(len(labels)):
            suffix = ".".join(labels[i:])  # exact spelling: re-cased names must survive
            if self.compress and suffix in self.names and self.names[suffix] < 0x3FFF:
                off = self.names[suffix]
                self.buf += struct.pack(">H", 0xC000 | off)
                return
            if len(self.buf) < 0x3FFF:
                self.names.setdefault(suffix, len(self.buf))
            raw = labels[i].encode("utf-8") if isinstance(labels[i], str) else labels[i]
            if len(raw) > 63:
                raise WireError("label too long")
            self.buf.append(len(raw))
            self.buf += raw
        self.buf.append(0)

    def rr(self, r):
        self.name(r.name)
        cls = r.cls | (0x8000 if r.flush else 0)
        self.buf += struct.pack(">HHI", r.type, cls, int(r.ttl) & 0xFFFFFFFF)
        pos = len(self.buf)
        self.buf += b"\0\0"
        t, rd = r.type, r.rdata
        if t in (T_A, T_AAAA, T_TXT):
            self.buf += rd
        elif t in (T_PTR, T_CNAME):
            self.name(rd)
        elif t == T_SRV:
            self.buf += struct.pack(">HHH", rd[0], rd[1], rd[2])
            self.name(rd[3])
        elif t == T_HINFO:
            for s in rd:
                self.buf.append(len(s))
                self.buf += s
        elif t == T_NSEC:
            self.name(rd[0])
            bitmap = bytearray(32)
            top = 0
            for ty in rd[1]:
                bitmap[ty // 8] |= 0x80 >> (ty % 8)
                top = max(top, ty // 8 + 1)
            self.buf += bytes([0, top]) + bytes(bitmap[:top])
        else:
            self.buf += rd
        struct.pack_into(">H", self.buf, pos, len(self.buf) - pos - 2)


def encode(msg, compress=True):
    e = _Enc(compress)
    e.buf += struct.pack(">HHHHHH", msg.id, msg.flags, len(msg.questions), len(msg.answers),
                         len(msg.authorities), len(msg.additionals))
    for q in msg.questions:
        e.name(q.name)
        e.buf += struct.pack(">HH", q.type, q.cls | (0x8000 if q.qu else 0))
    for r in msg.records():
        e.rr(r)
    return bytes(e.buf)


# --------------------------------------------------------------------------- strict decoder


class _Dec:
    def __init__(self, data):
        self.d = data
        self.o = 0

    def need(self, n):
        if self.o + n > len(self.d):
            raise WireError(f"truncated at {self.o}+{n}")

    def u8(self):
        self.need(1)
        v = self.d[self.o]
        self.o += 1
        return v

    def u16(self):
        self.need(2)
        v = (self.d[self.o] << 8) | self.d[self.o + 1]
        self.o += 2
        return v

    def u32(self):
        self.need(4)
        v = struct.unpack_from(">I", self.d, self.o)[0]
        self.o += 4
        return v

    def raw(self, n):
        self.need(n)
        v = bytes(self.d[self.o:self.o + n])
        self.o += n
        return v

    def name(self):
        labels = []
        wire_len = 0
        o = self.o
        end = None
        limit = self.o  # pointers must point strictly before the start of the current name part
        hops = 0
        while True:
            if o >= len(self.d):
                raise WireError("name runs past end")
            ln = self.d[o]
            if ln == 0:
                o += 1
                break
            if ln & 0xC0 == 0xC0:
                if o + 1 >= len(self.d):
                    raise WireError("pointer truncated")
                ptr = ((ln & 0x3F) << 8) | self.d[o + 1]
                if end is None:
                    end = o + 2
                if ptr >= limit:
                    raise WireError(f"pointer at {o} not strictly backward ({ptr} >= {limit})")
                if ptr < 12:
                    raise WireError("pointer into header")
                limit = ptr
                o = ptr
                hops += 1
                if hops > 128:
                    raise WireError("too many pointer hops")
                continue
            if ln & 0xC0:
                raise WireError(f"bad label type {ln:#x}")
            if o + 1 + ln > len(self.d):
                raise WireError("label runs past end")
            labels.append(bytes(self.d[o + 1:o + 1 + ln]).decode("utf-8", "replace"))
            wire_len += 1 + ln
            if wire_len + 1 > 255:
                raise WireError("name longer than 255 octets")
            o += 1 + ln
        if end is None:
            end = o
        self.o = end
        return ".".join(labels) + "."

    def rr(self):
        name = self.name()
        t = self.u16()
        c = self.u16()
        ttl = self.u32()
        rdlen = self.u16()
        self.need(rdlen)
        end = self.o + rdlen
        flush = bool(c & 0x8000)
        c &= 0x7FFF
        if t == T_A:
            if rdlen != 4:
                raise WireError("A rdlength != 4")
            rd = self.raw(4)
        elif t == T_AAAA:
            if rdlen != 16:
                raise WireError("AAAA rdlength != 16")
            rd = self.raw(16)
        elif t in (T_PTR, T_CNAME):
            rd = self.name()
        elif t == T_TXT:
            rd = self.raw(rdlen)
        elif t == T_SRV:
            p, w, port = self.u16(), self.u16(), self.u16()
            rd = (p, w, port, self.name())
        elif t == T_HINFO:
            a = self.raw(self.u8())
            b = self.raw(self.u8())
            rd = (a, b)
        elif t == T_NSEC:
            nxt = self.name()
            types = []
            while self.o < end:
                win = self.u8()
                bl = self.u8()
                if bl < 1 or bl > 32:
                    raise WireError("bad NSEC bitmap length")
                bm = self.raw(bl)
                for i, byte in enumerate(bm):
                    for bit in range(8):
                        if byte & (0x80 >> bit):
                            types.append(win * 256 + i * 8 + bit)
            rd = (nxt, types)
        else:
            rd = self.raw(rdlen)
        if self.o != end:
            raise WireError(f"rdlength mismatch for type {t}: at {self.o}, expected {end}")
        return RR(name, t, ttl, rd, flush, c)


def decode(data):
    """Strictly decode a datagram; raises WireError on any malformation."""
    d = _Dec(data)
    if len(data) < 12:
        raise WireError("short header")
    id_, flags, nq, nan, nns, nar = struct.unpack_from(">HHHHHH", data, 0)
    d.o = 12
    m = Msg(flags, id_)
    for _ in range(nq):
        name = d.name()
        t = d.u16()
        c = d.u16()
        m.questions.append(Q(name, t, bool(c & 0x8000), c & 0x7FFF))
    for n, lst in ((nan, m.answers), (nns, m.authorities), (nar, m.additionals)):
        for _ in range(n):
            lst.append(d.rr())
    if d.o != len(data):
        raise WireError(f"{len(data) - d.o} trailing bytes")
    return m


def try_decode(data):
    try:
        return decode(data)
    except WireError:
        return None


# --------------------------------------------------------------------------- helpers


def ip4(s):
    return bytes(int(x) for x in s.split("."))


def ip6(s):
    import socket

    return socket.inet_pton(socket.AF_INET6, s)


def query(questions, known=(), id_=0, tc=False, authorities=()):
    return Msg(FLAG_TC if tc else 0, id_, questions, known, authorities)


def response(answers, additionals=(), id_=0):
    return Msg(FLAG_QR | FLAG_AA, id_, [], answers, [], additionals)
