"""World: one simulated run = loop + link + hosts + scripted peers + decisions + log."""
import asyncio
import collections.abc
import contextvars
import hashlib
import logging
import os
import random
import sys

REPO_SRC = os.environ.get("VERIF_REPO_SRC", "/repo/src")
if REPO_SRC not in sys.path:
    sys.path.insert(0, REPO_SRC)

import zeroconf  # noqa: E402
import zeroconf._core as zc_core  # noqa: E402
import zeroconf._handlers.multicast_outgoing_queue as zc_mq  # noqa: E402
import zeroconf._listener as zc_listener  # noqa: E402
import zeroconf._protocol.incoming as zc_incoming  # noqa: E402
import zeroconf._services.browser as zc_browser  # noqa: E402
import zeroconf._services.info as zc_info  # noqa: E402
import zeroconf._utils.time as zc_time  # noqa: E402
from zeroconf import InterfaceChoice, IPVersion  # noqa: E402
from zeroconf.asyncio import AsyncServiceBrowser, AsyncServiceInfo, AsyncZeroconf  # noqa: E402

from . import wire  # noqa: E402
from .loop import SimLivelock, SimLoop  # noqa: E402
from .net import AF_INET, AF_INET6, FaultConfig, SimNet, SimSocket  # noqa: E402

CUR_HOST = contextvars.ContextVar("sim_host", default=None)
_WORLD = None  # the world of the run in progress (one at a time per process)

REAL_COMPONENTS = [
    "zeroconf._core (Zeroconf, async_send, registration/probing/announcing/goodbye)",
    "zeroconf._engine (AsyncEngine, cache purge timer)", "zeroconf._listener (AsyncListener, duplicate guard, TC deferral)",
    "zeroconf._handlers.* (QueryHandler, RecordManager, MulticastOutgoingQueue, answers)",
    "zeroconf._cache, zeroconf._dns, zeroconf._history", "zeroconf._protocol.incoming/outgoing (codec)",
    "zeroconf._services.browser (AsyncServiceBrowser, QueryScheduler)", "zeroconf._services.info (AsyncServiceInfo)",
    "zeroconf._services.registry", "zeroconf.asyncio (AsyncZeroconf)",
    "asyncio scheduler, tasks, futures, timeouts (real; only the selector and the clock are simulated)",
]
STUB_COMPONENTS = [
    "zeroconf._utils.net.create_sockets/new_socket/add_multicast_member -> SimSocket construction",
    "asyncio selector + datagram transport -> SimLoop / SimTransport over SimNet",
    "time.monotonic as read by zeroconf._utils.time -> simulator clock",
    "random.randint at the four jitter sites -> per-host seeded streams",
    "threaded wrappers: Zeroconf._start_thread and shutdown_loop are not run; the delivery thread of ServiceBrowser is "
    "modelled cooperatively in C17 (its queue and join are the simulator's), nowhere else",
]


def assert_pure_python():
    f = zeroconf.__file__
    assert os.path.realpath(f).startswith(os.path.realpath(REPO_SRC)), f"zeroconf imported from {f}, not {REPO_SRC}"
    for m in (zc_core, zc_listener, zc_mq, zc_browser, zc_info, zc_incoming):
        assert m.__file__.endswith(".py"), f"{m.__name__} is not pure python: {m.__file__}"


# ----------------------------------------------------------------------------- seams


class _TimeShim:
    @staticmethod
    def monotonic():
        return _WORLD.loop.time()

    @staticmethod
    def get_clock_info(name):
        import time as _t

        return _t.get_clock_info(name)


class _RandShim:
    def __init__(self, site):
        self.site = site

    def randint(self, a, b):
        w = _WORLD
        host = CUR_HOST.get()
        hn = host.name if host is not None else "?"
        return w.jitter(hn, self.site, a, b)


class OrderedSet(collections.abc.MutableSet):
    """Insertion-ordered replacement for the id()-ordered sets of listeners / futures: a full set (every operator of
    collections.abc.MutableSet), whose iteration order is reproducible, and which - like a real set - refuses to be
    iterated while it changes size."""

    def __init__(self, items=(), reverse=False):
        self._d = dict.fromkeys(items)
        self._reverse = reverse

    @classmethod
    def _from_iterable(cls, it):
        return cls(it)

    def _like(self, items):
        return OrderedSet(items, self._reverse)

    def __or__(self, other):
        return self._like(list(self._d) + [x for x in other if x not in self._d])

    def __sub__(self, other):
        return self._like([x for x in self._d if x not in other])

    def __and__(self, other):
        return self._like([x for x in self._d if x in other])

    def add(self, x):
        self._d[x] = None

    def remove(self, x):
        del self._d[x]

    def discard(self, x):
        self._d.pop(x, None)

    def clear(self):
        self._d.clear()

    def copy(self):
        return OrderedSet(self._d, self._reverse)

    def __iter__(self):
        keys = list(self._d)
        if self._reverse:
            keys.reverse()
        n = len(keys)
        for k in keys:
            yield k
            if len(self._d) != n:
                raise RuntimeError("Set changed size during iteration")

    def __len__(self):
        return len(self._d)

    def __bool__(self):
        return bool(self._d)

    def __contains__(self, x):
        return x in self._d


_PATCHED = False


class _FormattingHandler(logging.Handler):
    """What a StreamHandler does without the stream: the message is formatted (every %r argument is rendered), a
    formatting error is swallowed the way logging.Handler.handleError swallows it, and counted."""

    errors = 0
    records = 0

    def emit(self, record):
        _FormattingHandler.records += 1
        try:
            record.getMessage()
        except Exception:  # noqa
            _FormattingHandler.errors += 1


def set_debug_logging(on):
    """Applications may run the library with its logger at DEBUG: every `if debug:` branch then runs too."""
    lg = logging.getLogger("zeroconf")
    if on:
        lg.handlers[:] = [_FormattingHandler()]
        lg.setLevel(logging.DEBUG)
    else:
        lg.handlers[:] = [logging.NullHandler()]
        lg.setLevel(logging.CRITICAL + 10)


def install_seams():
    global _PATCHED
    if _PATCHED:
        return
    assert_pure_python()
    zc_time.time = _TimeShim
    zc_core.create_sockets = _sim_create_sockets
    zc_listener.random = _RandShim("tc")
    zc_browser.random = _RandShim("browser_start")
    zc_mq.RAND_INT = _RandShim("mcast_q").randint
    zc_info.randint = _RandShim("info").randint
    # (the library's own _resolve_all_futures_to_none runs: the instance's set of waiters is an OrderedSet, see Host.start;
    # a ServiceInfo's own set holds one future per concurrent request on that object, of which the drivers make one)
    lg = logging.getLogger("zeroconf")
    lg.handlers[:] = [logging.NullHandler()]
    lg.propagate = False
    lg.setLevel(logging.CRITICAL + 10)
    logging.getLogger("asyncio").setLevel(logging.CRITICAL + 10)
    _PATCHED = True


def _sim_create_sockets(interfaces=InterfaceChoice.All, unicast=False, ip_version=IPVersion.V4Only, apple_p2p=False):
    w = _WORLD
    host = w._creating
    assert host is not None, "Zeroconf constructed outside World.add_host"
    fam = AF_INET if ip_version == IPVersion.V4Only else AF_INET6
    dual = ip_version == IPVersion.All
    n = host.name
    gen = host.generation
    if unicast:
        listen = None
    else:
        listen = SimSocket(w.net, host, fam, "", wire.MDNS_PORT, True, f"{n}.{gen}.listen", dual=dual)
        host.sockets.append(listen)
    if not unicast and interfaces is InterfaceChoice.Default:
        return listen, [listen]
    responds = []
    ips = interfaces if isinstance(interfaces, list) else host.ips
    for i, ip in enumerate(ips):
        v6 = ":" in ip
        if unicast:
            port = host.ephemeral_port + i
        else:
            port = wire.MDNS_PORT
        s = SimSocket(w.net, host, AF_INET6 if v6 else AF_INET, ip, port, False, f"{n}.{gen}.resp{i}")
        host.sockets.append(s)
        responds.append(s)
    return listen, responds


# ----------------------------------------------------------------------------- hosts and peers


class _Endpoint:
    def new_context(self):
        return self.ctx.copy()


class Host(_Endpoint):
    """A simulated machine running one real (Async)Zeroconf instance."""

    def __init__(self, world, name, ip, ip6=None, layout="default", unicast=False):
        self.world = world
        self.name = name
        self.ips = [ip] + ([ip6] if ip6 else [])
        self.layout = layout
        self.unicast = unicast
        self.sockets = []
        self.generation = 0
        self.ephemeral_port = 40000 + 10 * len(world.hosts)
        self.azc = None
        self.zc = None
        self.browsers = {}
        self.alive = False
        self.ctx = contextvars.Context()
        self.ctx.run(CUR_HOST.set, self)

    def start(self):
        w = self.world

        def mk():
            w._creating = self
            try:
                if self.layout == "default" and not self.unicast:
                    if len(self.ips) > 1:
                        # one dual-stack socket (AF_INET6, V6ONLY off) in both groups
                        self.azc = AsyncZeroconf(interfaces=InterfaceChoice.Default, ip_version=IPVersion.All)
                    else:
                        self.azc = AsyncZeroconf(interfaces=InterfaceChoice.Default)
                else:
                    self.azc = AsyncZeroconf(interfaces=list(self.ips), unicast=self.unicast)
            finally:
                w._creating = None
            self.zc = self.azc.zeroconf
            # the two id()-ordered sets get a seed-chosen, replayable order; a container of another kind (a change of
            # the library under test) is already ordered and is left alone
            if type(self.zc.record_manager.listeners) is set:
                self.zc.record_manager.listeners = OrderedSet(reverse=w.listener_reverse)
            if type(self.zc._notify_futures) is set:
                self.zc._notify_futures = OrderedSet()
            self.alive = True

        self.new_context().run(mk)
        w.log("host-start", self.name, self.layout, self.generation)

    def crash(self):
        """Power loss: sockets vanish, nothing is sent, all of this instance's timers are orphaned."""
        self.alive = False
        zc = self.zc
        if zc is not None:
            zc.done = True
            for b in list(self.browsers.values()):
                try:
                    b._async_cancel()
                except Exception:  # noqa
                    pass
            self.browsers.clear()
            for wt in list(zc.engine.readers) + list(zc.engine.senders):
                wt.transport._closing = True
                wt.transport._receiving = False
                wt.transport._conn_lost = False  # a dead host raises nothing
                wt.transport._sock.closed = True
            if zc.engine._cleanup_timer is not None:
                zc.engine._cleanup_timer.cancel()
        for s in self.sockets:
            s.closed = True
        self.world.log("host-crash", self.name)

    def restart(self):
        self.generation += 1
        self.sockets = []
        self.start()


class Peer(_Endpoint):
    """A scripted link endpoint without a library instance."""

    def __init__(self, world, name, ip, ports=(wire.MDNS_PORT,), listen_mcast=True):
        self.world = world
        self.name = name
        self.ips = [ip]
        self.received = []  # (t, data, src, sock_label)
        self.reactors = []  # callables(data, addr, sock) run on every received datagram
        self.socks = {}
        self.ctx = contextvars.Context()
        self.ctx.run(CUR_HOST.set, None)
        for p in ports:
            self.open(p, listen_mcast and p == wire.MDNS_PORT)

    def open(self, port, joined=False):
        v6 = ":" in self.ips[0]
        s = SimSocket(self.world.net, self, AF_INET6 if v6 else AF_INET, "", port, joined, f"{self.name}:{port}")
        s.on_datagram = self._on_datagram
        self.socks[port] = s
        return s

    def _on_datagram(self, data, addr, sock):
        self.received.append((self.world.loop.time(), data, addr, sock.label))
        for fn in self.reactors:
            fn(data, addr, sock)

    def send(self, data, dst=None, src_port=wire.MDNS_PORT):
        if src_port not in self.socks:
            self.open(src_port, False)
        if dst is None:
            dst = (wire.MCAST6 if ":" in self.ips[0] else wire.MCAST4, wire.MDNS_PORT)
        self.world.net.send(self.socks[src_port], data, tuple(dst))


# ----------------------------------------------------------------------------- listeners


class BuggyHandler(Exception):
    """Raised by an application callback that has a bug of its own (the library must cope, the check ignores it)."""


class RecordingListener:
    """ServiceListener that records callbacks into the world log."""

    def __init__(self, world, host, bid, on_add=None):
        self.world, self.host, self.bid = world, host, bid
        self.events = []  # (t, kind, type, name)
        self.on_add = on_add

    def _rec(self, kind, zc, type_, name):
        t = self.world.loop.time()
        self.events.append((t, kind, type_, name))
        self.world.log("cb", self.host.name, self.bid, kind, type_, name)
        if self.world.on_callback is not None:
            self.world.on_callback(self, kind, zc, type_, name)

    def add_service(self, zc, type_, name):
        self._rec("add", zc, type_, name)
        if self.on_add is not None:
            self.on_add(self, zc, type_, name)
        once = getattr(self, "raise_once", None)
        if once is not None and name.lower() not in once:
            # the application's handler fails the first time it sees a service (and works when it is called again)
            once.add(name.lower())
            raise BuggyHandler(f"application handler failed for {name}")

    def remove_service(self, zc, type_, name):
        self._rec("remove", zc, type_, name)

    def update_service(self, zc, type_, name):
        self._rec("update", zc, type_, name)


# ----------------------------------------------------------------------------- decisions


class Decisions:
    def __init__(self, seed, overrides=None):
        self.seed = seed
        self._rngs = {}
        self._ctr = {}
        self.overrides = overrides or {}
        self.recorded = {}

    def rng(self, stream):
        r = self._rngs.get(stream)
        if r is None:
            r = self._rngs[stream] = random.Random(f"{self.seed}/{stream}")
        return r

    def draw(self, stream, fn):
        i = self._ctr.get(stream, 0)
        self._ctr[stream] = i + 1
        v = fn(self.rng(stream))  # always drawn, so the fallback stream stays aligned
        key = f"{stream}#{i}"
        if key in self.overrides:
            v = self.overrides[key]
        self.recorded[key] = v
        return v


# ----------------------------------------------------------------------------- world


class World:
    def __init__(self, seed, faults=None, overrides=None, start=1000.0, step_cap=2_000_000, jitter_mode=None,
                 listener_reverse=False, keep_log=True, timer_slop=0.0, debug_log=False):
        global _WORLD
        install_seams()
        zc_incoming._seen_logs.clear()
        zeroconf._logger.QuietLogger._seen_logs.clear()
        self.debug_log = bool(debug_log)
        if self.debug_log:
            set_debug_logging(True)
        self.seed = seed
        self.dec = Decisions(seed, overrides)
        self.loop = SimLoop(start, step_cap)
        self.loop.timer_slop = timer_slop
        self.loop.owner_of = lambda h: getattr(h._context.get(CUR_HOST) if h._context is not None else None, "name", None)
        self.loop.owner_of_context = lambda ctx: getattr(ctx.get(CUR_HOST), "name", None)
        self.t0 = start
        self.hosts = {}
        self.peers = {}
        self._creating = None
        self.listener_reverse = listener_reverse
        self.jitter_mode = jitter_mode  # None | 'min' | 'max' | dict(site->'min'/'max')
        self.jitter_draws = 0
        self.jitter_time_keyed = False
        self._h = hashlib.blake2b(digest_size=16)
        self.keep_log = keep_log
        self.events = []
        self.nevents = 0
        self.notes = {}
        self.api_log = []  # dicts: t_call, t_done, host, op, args, result/exc
        self.on_callback = None
        self.net = SimNet(self, faults or FaultConfig())
        self.loop.net = self.net

        def _count_postponed():
            fc = self.net.fault_counts
            fc["stall_postponed_events"] = fc.get("stall_postponed_events", 0) + 1

        self.loop.on_postpone = _count_postponed
        self._fut_seq = 0
        orig_create_future = self.loop.create_future

        def create_future():
            f = orig_create_future()
            self._fut_seq += 1
            f._sim_seq = self._fut_seq
            return f

        self.loop.create_future = create_future
        self.kind_seq = {}  # host -> list of event kinds (interleaving measure)
        _WORLD = self

    # -- time
    @property
    def now(self):
        return self.loop.time()

    @property
    def now_ms(self):
        return self.loop.time() * 1000.0

    def rel(self, t=None):
        return (self.loop.time() if t is None else t) - self.t0

    # -- decisions and logging
    def decide(self, stream, fn):
        v = self.dec.draw(stream, fn)
        return v

    def jitter(self, host, site, a, b):
        self.jitter_draws += 1
        mode = self.jitter_mode
        if isinstance(mode, dict):
            mode = mode.get(site)

        def draw(r):
            if mode == "min":
                return a
            if mode == "max":
                return b
            return r.randint(a, b)

        if self.jitter_time_keyed:
            # metamorphic runs: a draw is identified by (host, site, instant, k-th draw at that instant), so an
            # extra draw in one run does not shift the draws that follow
            v = self.decide(f"jit/{host}/{site}/{self.loop._now!r}", draw)
        else:
            v = self.decide(f"jit/{host}/{site}", draw)
        v = min(max(int(v), a), b)
        self.log("jit", host, site, v)
        return v

    def log(self, kind, *args):
        self.nevents += 1
        rec = (repr(self.loop._now), kind) + args
        self._h.update(repr(rec).encode())
        if self.keep_log:
            self.events.append(rec)
        if kind in ("tx", "rx", "cb", "api", "api-done"):
            h = args[1] if kind == "tx" else (args[1].split(".")[0].split(":")[0] if kind == "rx" else args[0])
            self.kind_seq.setdefault(h, []).append(kind if kind != "tx" else ("txm" if args[3] in
                                                   (wire.MCAST4, wire.MCAST6) else "txu"))

    def note(self, key, *args):
        self.notes[key] = self.notes.get(key, 0) + 1
        self.log("note", key, *args)

    def digest(self):
        return self._h.hexdigest()

    def interleaving_digest(self):
        h = hashlib.blake2b(digest_size=8)
        for host in sorted(self.kind_seq):
            h.update(host.encode())
            h.update(",".join(self.kind_seq[host]).encode())
        return h.hexdigest()

    # -- construction
    def add_host(self, name, ip, ip6=None, layout="default", unicast=False, start=True):
        h = Host(self, name, ip, ip6, layout, unicast)
        self.hosts[name] = h
        if start:
            h.start()
        return h

    def add_peer(self, name, ip, ports=(wire.MDNS_PORT,), listen_mcast=True):
        p = Peer(self, name, ip, ports, listen_mcast)
        self.peers[name] = p
        return p

    # -- running
    def at(self, t_rel, fn, *args, ctx=None):
        """Schedule fn at virtual time t0+t_rel (in the given endpoint's context)."""
        kw = {}
        if ctx is not None:
            kw["context"] = ctx.new_context()
        return self.loop.call_at(self.t0 + t_rel, fn, *args, **kw)

    def spawn(self, host, op, coro_fn, args_repr=None):
        """Run an API coroutine as a task in host's context; log call and completion."""
        entry = {"t_call": self.loop.time(), "t_done": None, "host": host.name if host else None, "op": op,
                 "args": args_repr, "result": None, "exc": None}
        self.api_log.append(entry)
        self.log("api", host.name if host else None, op, args_repr)

        async def runner():
            try:
                r = await coro_fn()
                entry["result"] = r
            except asyncio.CancelledError:
                entry["exc"] = "CancelledError"
                raise
            except Exception as e:  # noqa
                entry["exc"] = type(e).__name__
                entry["exc_obj"] = e
            finally:
                entry["t_done"] = self.loop.time()
                self.log("api-done", host.name if host else None, op, entry["exc"])
            return entry

        ctx = host.new_context() if host is not None else None
        task = self.loop.create_task(runner(), context=ctx)
        entry["task"] = task
        return entry

    def run(self, main_coro):
        """Run the driver coroutine to completion on the simulated loop."""
        asyncio.set_event_loop(None)
        try:
            return self.loop.run_until_complete(main_coro)
        except SimLivelock as e:
            # a busy loop in the system under test is an observation about it, not a harness failure: it is reported
            # through the same channel as an exception reaching the loop handler
            self.loop.exceptions.append({"t": self.loop._now, "message": "livelock: " + str(e), "exception": "SimLivelock",
                                         "type": "Livelock"})
            self.log("livelock")
            return None
        finally:
            asyncio.set_event_loop(None)

    async def sleep_until(self, t_rel):
        dt = self.t0 + t_rel - self.loop.time()
        if dt > 0:
            await asyncio.sleep(dt)

    def teardown(self):
        """Drop everything so that the next run in this process starts clean."""
        global _WORLD
        loop = self.loop
        try:
            for t in asyncio.all_tasks(loop):
                t.cancel()
            loop._ready.clear()
            loop._scheduled.clear()
            loop.set_exception_handler(lambda l, c: None)
            loop.close()
        except Exception:  # noqa
            pass
        zc_incoming._seen_logs.clear()
        if self.debug_log:
            set_debug_logging(False)
        _WORLD = None


def service_info(type_, name, port=80, props=None, server=None, addrs=("10.0.0.1",), host_ttl=None, other_ttl=None,
                 weight=0, priority=0, cls=AsyncServiceInfo):
    import socket

    kw = {}
    if host_ttl is not None:
        kw["host_ttl"] = host_ttl
    if other_ttl is not None:
        kw["other_ttl"] = other_ttl
    packed = [socket.inet_pton(socket.AF_INET6 if ":" in a else socket.AF_INET, a) for a in addrs]
    return cls(type_, name, port, weight, priority, props if props is not None else {}, server, addresses=packed, **kw)
