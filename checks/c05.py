"""C05 - record cache: all lookup paths agree with an RFC 6762 section 10 model."""
import sys

from checks import cachelib as cl
from sim import runner

PROPERTY = "C05"
LEVEL = "exploration"
QUICK_BUDGET = 25.0
THOROUGH_BUDGET = 900.0
RULE = ("Histories of 2..14 response datagrams (1..5 records each, drawn from a vocabulary of 5 owner names x "
        "A/AAAA/PTR/SRV/TXT/HINFO/NSEC x 2-3 rdata, TTL in {0,1,2,60,120,1124,1125,1200,4500}, flush bit on/off, the "
        "same record repeated inside a datagram with equal or different TTL, names/targets re-cased) multicast by a "
        "scripted peer into one real instance, separated by clock steps around 0/1 s/TTL expiry/10 s purge; optional "
        "link delay, duplication and reordering. After every delivery, every purge and at the end all public lookup "
        "paths are compared with ModelCache. Non-trivial = at least two non-suppressed response datagrams.")
DISTINCT_RULE = ("Distinct = distinct digests of the full event log (datagram contents, delivery instants, callbacks) "
                 "among non-trivial runs: the property quantifies over histories.")
ASSUMPTIONS = [
    "when one datagram lists a previously unknown record twice with different TTLs, either TTL is accepted as 'the "
    "received TTL' (all lookup paths must still agree on it)",
    "purge instants are the instance's start time + 10 s * k (the documented periodic purge)",
]


def generate(rng, tier):
    voc = cl.vocab_records()
    if rng.random() < 0.5:
        # concentrate on few rrsets so that repeats, refreshes and flushes collide
        voc = rng.sample(voc, rng.choice([1, 2, 3, 4]))
    opts = {"case_alias": True, "case_owner": True, "case_names": True,
            "flush_p": rng.choice([0.0, 0.3, 0.6]), "ptr_flush_p": rng.choice([0.0, 0.1]),
            "repeat_p": rng.choice([0.0, 0.3, 0.6]),
            "ttls": rng.choice([cl.TTLS, [0, 1, 2, 120], [0, 60, 120, 4500], [1, 2, 1124, 1125], [0, 20, 120]])}
    n = rng.choice([2, 3, 4, 5, 6, 8, 10, 14] + ([20, 30, 50] if tier == "thorough" else []))
    ops = []
    t = 0.01
    last_ttls = []
    for _ in range(n):
        m = cl.gen_datagram(rng, voc, opts)
        ops.append({"t": round(t, 6), "op": "send", "p": "P", "msg": m, "compress": rng.random() < 0.7})
        last_ttls = [r[2] for k in ("an", "ns", "ar") for r in m.get(k, []) if r[2] > 0][:3] or last_ttls
        t += cl.gen_step(rng, last_ttls)
    faults = {"max_delay_us": rng.choice([0, 0, 1000, 100000]), "dup_p": rng.choice([0.0, 0.0, 0.2]),
              "b2b_p": rng.choice([0.0, 0.0, 0.2])}
    return {"ops": ops, "faults": faults, "end": round(t + rng.choice([0.5, 11.0, 130.0, 4600.0]), 6),
            "layout": rng.choice(["default", "multi"])}


def execute(scenario, seed, overrides=None):
    out = runner.Outcome()
    h = cl.Harness(scenario, seed, overrides, out, check_paths=True, check_listeners=False, check_browsers=False)
    h.run()
    out.sample = {"ops": scenario["ops"][:3], "end": scenario["end"], "stats": {k: v for k, v in h.stats.items() if v}}
    return out


if __name__ == "__main__":
    import checks.c05 as me

    sys.exit(runner.main(me))
