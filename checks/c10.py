"""C10 - browser keeps learned services alive: refresh queries, rate limit, liveness."""
import sys

from sim import runner, wire
from sim.driver import Driver
from sim.models import HostModel
from sim.net import FaultConfig
from sim.world import World

PROPERTY = "C10"
LEVEL = "exploration"
QUICK_BUDGET = 25.0
THOROUGH_BUDGET = 900.0
RULE = ("One real instance with 1..2 AsyncServiceBrowsers on disjoint types (delay 1/2/10/60 s, forced or default "
        "question type); a scripted peer teaches PTR records with TTL 60(floored)/1125/1200/2000/4500/9000 at "
        "arbitrary instants - in particular shorter-lived after longer-lived - then refreshes, re-cases, withdraws or "
        "abandons them, over a virtual horizon of up to 3 h; no other asker on the link. Oracle on the query trace "
        "against the per-host reference cache: start-up schedule, minimum spacing, justification of every refresh "
        "query, and liveness (75 % query and 10 % rescue steps, each at most `delay` late) for every record left to "
        "expire. 6 % of the runs create the browsers in the instant the instance is created and deschedule the process "
        "for 0.5..20 s right then - at a time, or after the k-th loop iteration, i.e. between the steps of the instance's "
        "own start-up. Non-trivial = at least one PTR was left to expire or refreshed and at least 5 queries were sent.")
ASSUMPTIONS = [
    "browsers of one instance browse disjoint types, so every query on the trace is attributable to one browser",
    "a record whose 75 % point falls inside a browser's start-up phase is allowed to wait for the first regular pass",
    "bounds carry 2 ms slack for float rounding of ms/s conversions",
    "a process that was descheduled during the start-up phase: the four start-up queries are still required, each gap "
    "counted from the pass before it, a pass that fell due during the stall runs at its end; the stalled time does not "
    "count towards the 15 s after which four queries are demanded",
]

TYPES = ["_http._tcp.local.", "_ipp._tcp.local.", "_x-y._udp.local."]
SLACK = 0.002
STARTUP_GAPS = (1.0, 4.0, 9.0)


def generate(rng, tier):
    nb = rng.choice([1, 1, 2])
    types = list(TYPES)
    rng.shuffle(types)
    browsers = []
    if nb == 1:
        browsers.append({"id": "b0", "types": types[:rng.choice([1, 1, 2, 3])]})
    else:
        browsers.append({"id": "b0", "types": types[:1]})
        browsers.append({"id": "b1", "types": types[1:rng.choice([2, 3])]})
    sub = None
    if nb == 1 and len(browsers[0]["types"]) >= 2 and rng.random() < 0.4:
        # a subtype of the first browsed type is browsed as well: one instance then has two pointer records
        sub = "_printer._sub." + browsers[0]["types"][0]
        browsers[0]["types"][1] = sub
    ops = []
    for b in browsers:
        b["delay"] = rng.choice([1000, 2000, 10000, 10000, 60000])
        b["qtype"] = rng.choice([None, None, "QU", "QM"])
        b["t"] = round(rng.choice([0.01, 0.5, 30.0]) + rng.random() * 0.01, 6)
        ops.append({"t": b["t"], "op": "browse", "h": "B", "id": b["id"], "types": b["types"], "delay": b["delay"],
                    "qtype": b["qtype"]})
    all_types = [t for b in browsers for t in b["types"]]
    horizon = rng.choice([1500.0, 3000.0, 6000.0, 10800.0] + ([21600.0] if tier == "thorough" else []))
    nrec = rng.choice([1, 2, 2, 3, 4, 6] + ([10, 16] if tier == "thorough" else []))
    insts = []
    t = rng.choice([0.005, 0.3, 16.0, 20.0, 45.0])
    for i in range(nrec):
        ty = rng.choice(all_types)
        name = f"I{i}.{ty}"
        ttl = rng.choice([60, 1125, 1200, 1200, 2000, 4500, 4500, 9000])
        if ty == sub:
            # the instance is advertised under its base type and under the subtype (same instance name)
            name = f"I{i}.{browsers[0]['types'][0]}"
            ops.append(_ptr(t + rng.choice([-0.6, -0.001, 0.0, 0.6]), browsers[0]["types"][0], name,
                            rng.choice([ttl, 4500])))
        insts.append((ty, name, ttl))
        ops.append(_ptr(t, ty, name, ttl, rng))
        life = max(ttl, 1125)
        # follow-up behaviour
        k = rng.random()
        if rng.random() < 0.12:
            # a chatty responder: the record is re-announced every few seconds (less than the browser's delay apart, so
            # every copy finds the refresh slot 'close enough' to keep) for minutes, while other records stay quiet
            bdelay = next(b["delay"] for b in browsers if ty in b["types"]) / 1000.0
            gap = max(0.5, rng.choice([0.4 * bdelay, 0.9 * bdelay, 1.0, 3.0, 8.0]))
            dur = rng.choice([120.0, 400.0, 1300.0, 2500.0])
            n = int(min(dur / gap, 400))
            for j in range(1, n + 1):
                ops.append(_ptr(t + j * gap, ty, name, ttl))
        elif k < 0.35:
            pass  # abandoned: must be refreshed-for and finally removed
        elif k < 0.6:
            tr = t + life * rng.choice([0.3, 0.74, 0.75, 0.751, 0.8, 0.86, 0.95, 0.999])
            nm = name.upper() if rng.random() < 0.3 else name
            ops.append(_ptr(tr, ty, nm, rng.choice([ttl, 1200, 4500]), rng))
        elif k < 0.8:
            tg = t + life * rng.choice([0.1, 0.5, 0.76, 0.9])
            ops.append(_ptr(tg, ty, name, 0, rng))
        else:
            # refresh shortly after (within / beyond the browser delay): keeps or moves the slot
            ops.append(_ptr(t + rng.choice([0.5, 0.999, 1.0, 5.0, 9.999, 10.001, 30.0, 61.0]), ty, name, ttl))
        t += rng.choice([0.0, 0.001, 1.0, 10.0, 40.0, 300.0, 900.0, 2000.0]) * rng.random()
    if nb == 1 and len(browsers[0]["types"]) >= 2 and sub is None and rng.random() < 0.25:
        # two short-lived pointers of different types whose steps interleave under a long delay: each one's query makes
        # the other one's late by almost the whole delay (the last step then has less than 10 % of the TTL left)
        browsers[0]["delay"] = rng.choice([57000, 59000, 60000])
        for o in ops:
            if o["op"] == "browse":
                o["delay"] = browsers[0]["delay"]
        tt = rng.choice([20.0, 200.0]) + rng.random()
        ta, tb = browsers[0]["types"][0], browsers[0]["types"][1]
        ops.append(_ptr(tt, ta, f"Pa.{ta}", rng.choice([60, 1125, 1200])))
        ops.append(_ptr(tt + 112.5 - rng.choice([0.5, 2.0, 3.5, 10.0, 55.0]), tb, f"Pb.{tb}", rng.choice([1125, 1200])))
    for b in browsers:
        if rng.random() < 0.25:
            ops.append({"t": round(rng.choice([5.0, 100.0, 900.0, 1500.0, 3000.0]) + rng.random(), 6), "op": "cancel",
                        "h": "B", "id": b["id"]})
    extra = {}
    if rng.random() < 0.06:
        # the application creates the browser in the instant it creates the instance, and the process is descheduled
        # for some seconds before the instance has finished starting (a VM pause, blocking start-up code)
        for o in ops:
            if o["op"] == "browse":
                o["t"] = 0.0
        for b in browsers:
            b["t"] = 0.0
        dur = rng.choice([0.5, 3.0, 8.9, 9.05, 9.5, 12.0, 20.0])
        if rng.random() < 0.5:
            ops.append({"t": rng.choice([0.0, 0.0, 0.0000001, 0.0002]), "op": "stall", "h": "B", "dur": dur})
        else:
            # ... after a number of loop iterations: the sockets of the instance are half set up, the browser's wait
            # for the start has armed its time-out
            extra["stall_step"] = [rng.choice([2, 3, 4, 5, 6, 7, 8]), dur]
            extra["layout"] = rng.choice(["default", "multi"])
    ops = [o for o in ops if 0.0 <= o["t"] < horizon - 1.0]
    ops.sort(key=lambda o: o["t"])
    faults = {"max_delay_us": rng.choice([0, 1000, 100000]), "loop_delay_us": rng.choice([0, 1000]),
              "dup_p": rng.choice([0.0, 0.1])}
    return {"timer_slop_us": rng.choice([0, 0, 1, 50, 300]), "ops": ops, "faults": faults, "end": horizon,
            "browsers": browsers, **extra}


def _kept_slot_cause(hist, k, lo, delay, tq, first_deadline):
    """Names the one way the library is known to be later than `delay`: the record was refreshed, its new 75 % point lies
    within `delay` of the old one so the old slot is kept (it may be later than the new point), and the browser's
    minimum time between queries - another type was asked just before - then adds up to one more `delay`."""
    if k > 0 and hist[k - 1][1] == "set":
        old_lo = hist[k - 1][2] / 1000.0 + 0.75 * hist[k - 1][3]
        if abs(old_lo - lo) <= delay and any(first_deadline < t <= lo + 2 * delay + SLACK for t in tq):
            return "kept-slot-and-rate-limit"
    return None


def _ptr(t, ty, name, ttl, rng=None):
    if rng is not None and rng.random() < 0.12:
        # the responder spells the type in its own letter case (DNS names compare case-insensitively)
        ty = rng.choice([ty.upper(), ty.replace("_t", "_T").replace("_h", "_H").replace("_i", "_I")])
    return {"t": round(t, 6), "op": "send", "p": "P",
            "msg": {"qr": 1, "an": [wire.RR(ty, wire.T_PTR, ttl, name).to_json()]}}


def execute(scenario, seed, overrides=None):
    out = runner.Outcome()
    w = World(seed, FaultConfig(**scenario.get("faults", {})), overrides,
              timer_slop=scenario.get("timer_slop_us", 0) / 1e6)
    try:
        drv = Driver(w, scenario)
        model = {}
        updates = []  # (t_s, ident, kind, created_ms, ttl) as applied to B's cache

        def on_rx(t, rsock, data, addr, tx_idx, copy):
            if rsock.owner.name != "B":
                return
            hm = model["m"]
            msg, eff = hm.on_rx(t, rsock.label, data, src=addr)
            if eff is None:
                return
            m = hm.cache
            for i in eff.new + eff.refreshed:
                e = m.e.get(i)
                if e is not None and i[1] == wire.T_PTR:
                    updates.append((t, i, "set", e.created, e.ttl))
            for i in eff.removed:
                if i[1] == wire.T_PTR:
                    updates.append((t, i, "del", None, None))

        w.net.on_rx = on_rx

        ss = scenario.get("stall_step")
        if ss:
            # the process is descheduled after its k-th loop iteration: in the middle of the instance's start-up, after
            # the tasks of that instant have taken their first steps (and armed their time-outs)
            def on_step(n, k=ss[0], dur=ss[1], fired=[False]):
                if n >= k and not fired[0] and "B" in w.hosts:
                    fired[0] = True
                    drv.op_stall({"op": "stall", "h": "B", "dur": dur})

            w.loop.on_step = on_step

        async def main():
            w.add_host("B", "10.0.0.2", layout=scenario.get("layout", "default"))
            model["m"] = HostModel(w.now)
            w.add_peer("P", "10.0.0.9")
            drv.schedule_all()
            await w.sleep_until(scenario["end"])

        w.run(main())
        _oracle(w, drv, scenario, model["m"].cache, updates, out)
        if w.loop.exceptions:
            out.add("C10.loop-exception", f"exception reached the loop handler: {w.loop.exceptions[0]}")
        out.digest = w.digest()
        out.interleaving = w.interleaving_digest()
        out.sim_seconds = w.now - w.t0
        out.decisions = w.dec.recorded
        out.stats.update({f"fault_{k}": v for k, v in w.net.fault_counts.items()})
        out.stats["tx"] = len(w.net.trace)
    finally:
        w.teardown()
    return out


def _oracle(w, drv, sc, model, updates, out):
    end = w.now
    queries = []  # (t_s, {type_lower: qu})
    for tx in w.net.trace:
        if tx.host != "B" or tx.msg is None or tx.msg.is_response:
            continue
        queries.append((tx.t, {q.name.lower(): q.qu for q in tx.msg.questions if q.type == wire.T_PTR}))
    removed_cb = []
    nexp = 0
    nrefreshed = 0
    for b in sc["browsers"]:
        lst = drv.listeners.get(("B", b["id"]))
        if lst is None:
            continue
        types = [t.lower() for t in b["types"]]
        delay = b["delay"] / 1000.0
        start = lst.started
        bq = [(t, qs) for t, qs in queries if any(ty in qs for ty in types)]
        # merge packets sent at the same instant (one pass may be split over packets)
        passes = []
        for t, qs in bq:
            if passes and abs(passes[-1][0] - t) < 1e-9:
                passes[-1][1].update({k: v for k, v in qs.items() if k in types})
            else:
                passes.append((t, {k: v for k, v in qs.items() if k in types}))
        if lst.cancelled is not None:
            lateq = [t for t, qs in passes if t > lst.cancelled + 1e-9]
            if lateq:
                out.add("C10.query-after-cancel", f"browser {b['id']} was cancelled at {w.rel(lst.cancelled):.3f} but "
                        f"queried at {[round(w.rel(t), 3) for t in lateq][:4]}")
            passes = [p for p in passes if p[0] <= lst.cancelled + 1e-9]
        # (a) start-up
        c_end = lst.cancelled if lst.cancelled is not None else end
        stalled = sum(max(0.0, min(b2, c_end) - max(a2, start)) for a2, b2, hn in drv.stalls if hn == "B")
        if c_end - start - stalled > 15.0:
            if len(passes) < 4:
                out.add("C10.startup-count", f"browser {b['id']}: only {len(passes)} queries within the run, expected 4 "
                        "start-up queries")
                continue
            t1 = passes[0][0]
            # (a process that was descheduled while it started runs its first pass when it comes back: the 20..120 ms
            # count from then; the count of four, their spacing and their types are judged as ever)
            stall_end = max([b2 for a2, b2, hn in drv.stalls if hn == "B" and a2 <= start + 0.2] + [start])
            if not (0.020 - 1e-9 <= t1 - start <= 0.120 + SLACK + (stall_end - start)):
                out.add("C10.startup-first-delay", f"browser {b['id']}: first query {1000 * (t1 - start):.3f} ms after "
                        "start, expected 20..120 ms")
            for k, gap in enumerate(STARTUP_GAPS):
                # (each gap counts from the pass before it; a pass that falls due while the process is descheduled
                # runs when the process comes back)
                exp = passes[k][0] + gap
                hi = max([b2 for a2, b2, hn in drv.stalls if hn == "B" and a2 <= exp + SLACK < b2 + SLACK] + [exp])
                if not (exp - SLACK <= passes[k + 1][0] <= hi + SLACK):
                    out.add("C10.startup-backoff", f"browser {b['id']}: start-up query {k + 2} at +"
                            f"{passes[k + 1][0] - t1:.3f}s, expected +{exp - t1:.3f}s")
                    break
            for k in range(4):
                qs = passes[k][1]
                if set(qs) != set(types):
                    out.add("C10.startup-types", f"browser {b['id']}: start-up query {k + 1} asks {sorted(qs)}, "
                            f"expected all of {types}")
                    break
                want_qu = (k == 0) if b["qtype"] is None else (b["qtype"] == "QU")
                if any(v != want_qu for v in qs.values()):
                    out.add("C10.startup-qu", f"browser {b['id']}: start-up query {k + 1} QU bits {qs}, expected "
                            f"{'QU' if want_qu else 'QM'} (forced={b['qtype']})", k=k)
                    break
        t_startup_end = passes[3][0] if len(passes) >= 4 else end
        post = passes[4:]
        # (b) spacing after start-up
        prev = t_startup_end
        for t, qs in post:
            if t - prev < delay - SLACK:
                out.add("C10.min-spacing", f"browser {b['id']}: queries at {w.rel(prev):.3f} and {w.rel(t):.3f} are "
                        f"{t - prev:.3f}s apart, less than delay {delay}s")
                break
            prev = t
        # timeline of PTR states per ident for this browser's types
        per = {}
        for t, ident, kind, created, ttl in updates:
            if ident[0] in types:
                per.setdefault(ident, []).append((t, kind, created, ttl))
        # (c) justification of post-start-up questions
        for t, qs in post:
            for ty, qu in qs.items():
                ok = False
                for ident, hist in per.items():
                    if ident[0] != ty:
                        continue
                    # state just before t and state at t (an update and a timer may share one instant)
                    cands = []
                    st = None
                    for (tu, kind, created, ttl) in hist:
                        if tu < t - 1e-9:
                            st = (kind, created, ttl)
                    cands.append(st)
                    for (tu, kind, created, ttl) in hist:
                        if tu <= t + 1e-9:
                            st = (kind, created, ttl)
                    cands.append(st)
                    for st in cands:
                        if st is None or st[0] == "del":
                            continue
                        c, ttl = st[1] / 1000.0, st[2]
                        if t >= c + 0.75 * ttl - delay - SLACK and t <= c + ttl + 10.0 + SLACK:
                            ok = True
                    if ok:
                        break
                if not ok:
                    out.add("C10.unjustified-query", f"browser {b['id']}: refresh query for {ty} at {w.rel(t):.3f} but no "
                            f"cached PTR of that type is within `delay` of its 75 % point (states: "
                            f"{ {i[3]: h[-1][1:] for i, h in per.items() if i[0] == ty} })")
                    break
                if b["qtype"] is None and qu:
                    out.add("C10.refresh-qu", f"browser {b['id']}: refresh query at {w.rel(t):.3f} is QU")
                    break
        # (d) liveness for every final segment that runs to expiry unrefreshed
        for ident, hist in per.items():
            for k, (tu, kind, created, ttl) in enumerate(hist):
                if kind != "set":
                    continue
                nxt = hist[k + 1][0] if k + 1 < len(hist) else None
                c = created / 1000.0
                expiry = c + ttl
                seg_end = min(x for x in (nxt, expiry, end) if x is not None)
                if nxt is not None and nxt < expiry:
                    nrefreshed += 1
                if lst.cancelled is not None and lst.cancelled < seg_end:
                    seg_end = lst.cancelled
                if c < start:
                    # learned before the browser existed: replayed at start
                    pass
                lo = c + 0.75 * ttl
                # expected chain of refresh attempts while the segment lasts
                first_deadline = lo + delay
                if lo < t_startup_end + delay:
                    first_deadline = max(first_deadline, t_startup_end + 2 * delay)
                    if lo < start:
                        continue
                if first_deadline + SLACK >= seg_end:
                    continue
                tq = [t for t, qs in passes if ident[0] in qs]
                firsts = [t for t in tq if lo - delay - SLACK <= t <= first_deadline + SLACK]
                if not firsts:
                    out.add("C10.no-refresh-query", f"browser {b['id']}: PTR {ident[3]} (ttl {ttl}, learned "
                            f"{w.rel(c):.3f}) got no refresh query in [{w.rel(lo) - delay:.3f}, {w.rel(first_deadline):.3f}]"
                            f"; it {'expired at' if seg_end == expiry else 'was current until'} {w.rel(seg_end):.3f}; "
                            f"queries for the type at {[round(w.rel(t), 3) for t in tq][-6:]}",
                            earlier_longer=_earlier_longer(per, ident, c, ttl),
                            cause=_kept_slot_cause(hist, k, lo, delay, tq, first_deadline))
                    continue

                # "... and again at further 10 percent steps until it expires (each at most the configured inter-query
                # delay late)": the steps are fractions of the record's own TTL - 85 %, 95 % - not of the moment the
                # previous query happened to go out (lateness must not add up, third audit, D59). Any query for the
                # type inside a step's window counts, whichever record it was sent for
                kstep = 1
                while True:
                    lo_k = c + (0.75 + 0.1 * kstep) * ttl
                    dl_k = lo_k + delay
                    if lo_k < t_startup_end + delay:
                        dl_k = max(dl_k, t_startup_end + 2 * delay)
                    if kstep > 2:
                        break
                    if dl_k + SLACK >= min(seg_end, expiry):
                        # the step's latest instant lies beyond the record's expiry. It is owed all the same when nothing
                        # holds it back that long: for a record that was never refreshed (its slot is its own 75 % point)
                        # the step is due at lo_k, or - when the browser asked something less than `delay` before - as
                        # soon as the minimum time between its queries allows
                        if k == 0 and lo_k >= t_startup_end + delay:
                            lim = min(seg_end, expiry)
                            # (a record that was never refreshed has its own 75 % point as slot: no step comes early)
                            asked = any(lo_k - SLACK <= t < lim for t in tq)
                            later = [t for t, qs in passes if lo_k + SLACK <= t < lim - SLACK and ident[0] not in qs]
                            if later and not asked:
                                out.add("C10.no-rescue-query", f"browser {b['id']}: PTR {ident[3]} (ttl {ttl}, current from "
                                        f"{w.rel(c):.3f}, never refreshed) was not asked for at {75 + 10 * kstep} % of its TTL "
                                        f"({w.rel(lo_k):.3f}) or later, although the browser sent a query for another type at "
                                        f"{w.rel(later[0]):.3f}, when the step was due; expiry at {w.rel(expiry):.3f}; queries "
                                        f"for the type at {[round(w.rel(t), 3) for t in tq][-8:]}", step=kstep, strict=True)
                        break
                    # (a kept refresh slot may lie up to `delay` before the record's own 75 % point, and its steps with it)
                    if not any(lo_k - delay - SLACK <= t <= dl_k + SLACK for t in tq):
                        out.add("C10.no-rescue-query", f"browser {b['id']}: PTR {ident[3]} (ttl {ttl}, current from "
                                f"{w.rel(c):.3f}) no rescue query in [{w.rel(lo_k - delay):.3f}, {w.rel(dl_k):.3f}] ({75 + 10 * kstep} % of "
                                f"its TTL, at most {delay:g} s late); queries for the type at "
                                f"{[round(w.rel(t), 3) for t in tq][-8:]}", step=kstep)
                        break
                    kstep += 1
                if seg_end == expiry:
                    nexp += 1
    out.nontrivial = (nexp + nrefreshed) >= 1 and len(queries) >= 5
    out.stats["ptr_left_to_expire"] = nexp
    out.stats["ptr_refreshed_or_withdrawn"] = nrefreshed
    out.stats["queries"] = len(queries)
    out.sample = {"browsers": sc["browsers"], "ops": sc["ops"][:6], "queries": len(queries), "expired": nexp}


def _earlier_longer(per, ident, c, ttl):
    """True when another record of this browser, learned earlier, has a later 75 % point (the D4 shape)."""
    for other, hist in per.items():
        if other == ident:
            continue
        for (tu, kind, created, ottl) in hist:
            if kind == "set" and created / 1000.0 <= c and created / 1000.0 + 0.75 * ottl > c + 0.75 * ttl:
                return True
    return False


if __name__ == "__main__":
    import checks.c10 as me

    sys.exit(runner.main(me))
