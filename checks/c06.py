"""C06 - response ingestion and the record-update listener contract."""
import sys

from checks import cachelib as cl
from sim import runner

PROPERTY = "C06"
LEVEL = "exploration"
QUICK_BUDGET = 25.0
THOROUGH_BUDGET = 900.0
RULE = ("C05's datagram histories plus 0..3 probe RecordUpdateListeners that are added/removed at arbitrary points "
        "(between datagrams and from inside another probe's async_update_records). Each probe records, inside both "
        "callbacks, its arguments and a snapshot of the cache through the public accessors; per delivered, "
        "non-suppressed, valid response datagram the (new, previous) pairs, their order, exactly-once delivery and the "
        "cache state visible in each callback are compared with ModelCache (TTL floor, arrival time as creation time, "
        "flush marks at >1000 ms only). Non-trivial = at least two non-suppressed response datagrams.")
DISTINCT_RULE = ("Distinct = distinct digests of the full event log (datagram contents, delivery instants, callbacks) "
                 "among non-trivial runs: the property quantifies over histories.")
ASSUMPTIONS = [
    "duplicate-datagram suppression (identical bytes within 1 s on one socket) is modelled as the statement of C16 has it",
    "a record that is new to the cache and listed twice with different TTLs may end up with either TTL",
]


def generate(rng, tier):
    voc = cl.vocab_records()
    if rng.random() < 0.5:
        voc = rng.sample(voc, rng.choice([1, 2, 3, 4]))
    opts = {"case_alias": True, "case_owner": True, "case_names": True,
            "flush_p": rng.choice([0.0, 0.3, 0.6]), "ptr_flush_p": rng.choice([0.0, 0.1]),
            "repeat_p": rng.choice([0.0, 0.3, 0.6]),
            "ttls": rng.choice([cl.TTLS, [0, 1, 2, 120], [0, 60, 120, 4500], [1, 2, 1124, 1125], [0, 20, 120]])}
    n = rng.choice([2, 3, 4, 5, 6, 8, 10] + ([16, 24, 40] if tier == "thorough" else []))
    ops = []
    t = 0.01
    last_ttls = []
    nprobes = rng.choice([0, 1, 2, 3])
    live = set()
    for k in range(n):
        if nprobes and rng.random() < 0.5:
            pid = f"p{rng.randrange(nprobes)}"
            if pid in live and rng.random() < 0.3:
                # the application registers a listener it has registered already (e.g. for a second question)
                ops.append({"t": round(t, 6), "op": "probe", "act": "add", "id": pid, "again": True})
            elif pid in live:
                ops.append({"t": round(t, 6), "op": "probe", "act": "remove", "id": pid})
                live.discard(pid)
                if rng.random() < 0.15:
                    ops.append({"t": round(t + 0.0000005, 6), "op": "probe", "act": "remove", "id": pid, "again": True})
            else:
                script = {}
                if rng.random() < 0.5:
                    other = f"p{rng.randrange(nprobes)}"
                    # (third element: also when the other probe is registered / removed already)
                    script[str(rng.randrange(0, 3))] = [rng.choice(["add", "remove"]), other, int(rng.random() < 0.3)]
                ops.append({"t": round(t, 6), "op": "probe", "act": "add", "id": pid, "script": script})
                live.add(pid)
            t += 0.000001
        m = cl.gen_datagram(rng, voc, opts)
        ops.append({"t": round(t, 6), "op": "send", "p": "P", "msg": m, "compress": rng.random() < 0.7})
        last_ttls = [r[2] for k2 in ("an", "ns", "ar") for r in m.get(k2, []) if r[2] > 0][:3] or last_ttls
        t += cl.gen_step(rng, last_ttls)
    faults = {"max_delay_us": rng.choice([0, 0, 1000, 100000]), "dup_p": rng.choice([0.0, 0.0, 0.2]),
              "b2b_p": rng.choice([0.0, 0.0, 0.2])}
    return {"ops": ops, "faults": faults, "end": round(t + rng.choice([0.5, 11.0]), 6),
            "layout": rng.choice(["default", "multi"])}


def execute(scenario, seed, overrides=None):
    out = runner.Outcome()
    h = cl.Harness(scenario, seed, overrides, out, check_paths=False, check_listeners=True, check_browsers=False)
    h.run()
    # C05's clauses are C05's business; here they only flag that the engine state diverged
    out.violations = [v for v in out.violations if not v.clause.startswith("C05.") or v.clause == "C05.entries_with_name"]
    for v in out.violations:
        if v.clause == "C05.entries_with_name":
            v.clause = "C06.final-state"
    out.sample = {"ops": scenario["ops"][:3], "end": scenario["end"], "stats": {k: v for k, v in h.stats.items() if v}}
    return out


if __name__ == "__main__":
    import checks.c06 as me

    sys.exit(runner.main(me))
