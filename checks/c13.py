"""C13 - queries carry known answers and are not needlessly repeated."""
import sys

from checks.c03 import ModelRegistry
from sim import runner, wire
from sim.driver import Driver
from sim.models import HostModel
from sim.net import AF_INET6, FaultConfig
from sim.svc import SvcRecords, gen_services
from sim.world import World

PROPERTY = "C13"
LEVEL = "exploration"
QUICK_BUDGET = 30.0
THOROUGH_BUDGET = 900.0
RULE = ("1..3 real instances, each with browsers (start offsets 0/1/998/999/1000/1001 ms between two askers of one "
        "question inside one instance or on two hosts) and service-info lookups (timeouts 200 ms..10 s, forced QU/QM or "
        "default), some with registered services so that they hear questions as authoritative responders; a scripted "
        "peer pre-loads the caches with 0/3/40/400 PTR records per type (the known-answer list then overflows one "
        "packet) and SRV/TXT/address records at ages just below/at/above half their TTL, and sends partial (SRV-only/TXT-only) "
        "answers 0.1..3.4 s into a lookup so that it is woken early without completing. Every query datagram is decoded "
        "by the independent codec and compared with the per-host reference cache and question history. Non-trivial = at "
        "least 3 query transmissions were judged and at least one carried known answers or was a repeated question.")
ASSUMPTIONS = [
    "a query and a response delivery at exactly the same instant may be ordered either way: the known-answer set is "
    "accepted against the cache state just before or just after that instant",
    "the reference question history mirrors the statement: own QM questions and QM questions heard while holding "
    "registered records that answer them, within 999 ms, with a known-answer subset test",
]

T1 = "_http._tcp.local."
T2 = "_ipp._tcp.local."
OFFS = [0.0, 0.001, 0.998, 0.999, 1.0, 1.001]


def generate(rng, tier):
    nh = rng.choice([1, 1, 2, 3])
    big = nh == 1 and rng.random() < 0.35
    hosts = ["A", "B", "C"][:nh]
    ops = []
    for i, h in enumerate(hosts):
        ops.append({"t": 0.0, "op": "host", "h": h, "ip": f"10.0.0.{i + 1}", "layout": rng.choice(["default", "multi"])})
    ops.append({"t": 0.0, "op": "peer", "p": "P", "ip": "10.0.0.9"})
    t_pre = 0.05
    npre = rng.choice([0, 3, 40, 400]) if big else rng.choice([0, 0, 3, 8])
    age = rng.choice([5.0, 100.0, 2249.0, 2250.0, 2251.0, 3000.0]) if npre else rng.choice([0.5, 5.0])
    if npre:
        per = 60
        k = 0
        tt = t_pre
        while k < npre:
            recs = [wire.RR(T1, wire.T_PTR, 4500, f"Pre{j}-{'x' * (j % 30)}.{T1}").to_json() for j in range(k, min(npre, k + per))]
            ops.append({"t": round(tt, 6), "op": "send", "p": "P", "msg": {"qr": 1, "an": recs}})
            k += per
            tt += 0.0011
    # lookup targets pre-loaded with ages around half of the host TTL (120 s) / other TTL
    targets = []
    for i in range(rng.choice([0, 1, 2])):
        svc = {"type": T1, "name": f"Tgt{i}.{T1}", "port": 1000 + i, "server": f"tgt{i}.local.", "addrs": [f"10.1.0.{i + 1}"],
               "props": {"i": str(i)}}
        r = SvcRecords(svc)
        have = rng.choice([[], ["srv"], ["srv", "txt"], ["srv", "txt", "a"], ["a"], ["txt"]])
        tgt_age = rng.choice([1.0, 59.0, 60.0, 61.0, 100.0])
        recs = []
        if "srv" in have:
            recs.append(r.srv)
        if "txt" in have:
            recs.append(r.txt)
        if "a" in have:
            recs += r.addrs
        targets.append({"svc": svc, "have": have, "age": tgt_age, "recs": [x.to_json() for x in recs]})
    t_start = t_pre + age + 1.0
    for tg in targets:
        if tg["recs"]:
            ops.append({"t": round(t_start - tg["age"], 6), "op": "send", "p": "P", "msg": {"qr": 1, "an": tg["recs"]}})
    ops = [o for o in ops if o["t"] >= 0]
    # registered services (authoritative hearing)
    for h in hosts:
        if rng.random() < 0.5:
            s = gen_services(rng, 1, types=[rng.choice([T1, T2])], hosts=[f"host{h.lower()}.local."], prefix=f"S{h}",
                             custom_ttl=False)[0]
            ops.append({"t": round(rng.choice([0.01, t_start - 2.0]) if t_start > 3 else 0.01, 6), "op": "register", "h": h,
                        "svc": s})
    # browsers: pairs of askers of the same question
    bid = 0
    base = t_start
    for h in hosts:
        nb = rng.choice([1, 1, 2, 3]) if not big else 1
        for i in range(nb):
            types = [T1] if (big or rng.random() < 0.6) else rng.choice([[T2], [T1, T2]])
            off = rng.choice(OFFS + [0.5, 1.2, 1.7, 2.2]) * (bid > 0) + rng.choice([0.0, 0.0, 0.3]) * rng.random()
            ops.append({"t": round(base + off, 6), "op": "browse", "h": h, "id": f"b{bid}", "types": types,
                        "delay": rng.choice([None, 1000]), "qtype": rng.choice([None, None, "QU", "QM"])})
            bid += 1
    # a scripted querier on the link (an ordinary mDNS host, or a one-shot legacy resolver that asks from another source
    # port): the instances that hold registered records for the question hear it as authoritative responders, shortly
    # before their own browsers are due to ask the same
    if rng.random() < 0.5:
        for _ in range(rng.choice([1, 2, 3])):
            qt = rng.choice([T1, T1, T2])
            tq = base + rng.choice([0.0, 0.05, 0.5, 0.9, 1.0, 1.05, 4.2, 4.9, 5.05, 9.5]) + rng.random() * 0.1
            kn = []
            if rng.random() < 0.2:
                kn = [wire.RR(qt, wire.T_PTR, 4500, f"Foreign.{qt}").to_json()]
            # (now and then only the first, truncated packet of a longer query gets through: its continuation is lost)
            ops.append({"t": round(tq, 6), "op": "send", "p": "P", "src_port": rng.choice([5353, 5353, 5354, 49152]),
                        "msg": {"q": [[qt, 12, 0]], "an": kn, "id": rng.choice([0, 77]), "tc": int(rng.random() < 0.25)}})
    # lookups
    for i, tg in enumerate(targets):
        h = rng.choice(hosts)
        t_lk = round(base + rng.choice(OFFS) + rng.choice([0.0, 0.5, 2.0]), 6)
        ops.append({"t": t_lk, "op": "lookup", "h": h, "type": T1,
                    "name": tg["svc"]["name"], "timeout": rng.choice([200, 1000, 3000, 10000]),
                    "qtype": rng.choice([None, None, "QU", "QM"])})
        if rng.random() < 0.5:
            # partial answers while the lookup waits: they wake it early without completing it
            r = SvcRecords(tg["svc"])
            for _ in range(rng.choice([1, 1, 2])):
                part = rng.choice([[r.txt], [r.srv], [r.srv, r.txt]])
                ops.append({"t": round(t_lk + rng.choice([0.1, 0.3, 0.45, 0.8, 1.3, 2.2, 3.4]) + rng.random() * 0.05, 6),
                            "op": "send", "p": "P", "msg": {"qr": 1, "an": [x.to_json() for x in part]}})
        if rng.random() < 0.4:
            h2 = rng.choice(hosts)
            ops.append({"t": round(base + rng.choice(OFFS) + rng.choice([0.0, 0.5]), 6), "op": "lookup", "h": h2, "type": T1,
                        "name": tg["svc"]["name"], "timeout": rng.choice([1000, 3000]), "qtype": rng.choice([None, "QM"])})
    ops.sort(key=lambda o: o["t"])
    faults = {"max_delay_us": rng.choice([0, 500, 20000]), "loop_delay_us": rng.choice([0, 300]),
              "dup_p": rng.choice([0.0, 0.05])}
    return {"timer_slop_us": rng.choice([0, 0, 0.1]), "ops": ops, "faults": faults, "end": round(base + rng.choice([4.0, 16.0, 30.0]), 6), "big": big}


class HostState:
    def __init__(self, start):
        self.hm = HostModel(start)
        self.log = []  # (t, ident, created_ms|None, ttl) cache mutations in order
        self.heard_log = []  # (t_ms, question key, set(idents)) QM questions heard as an authoritative responder
        self.heard_amb = []  # the same for assembled truncated queries: entries that may or may not be in place yet
        self.trains = {}  # (socket, source address, port) -> truncated query being assembled
        self.reg = ModelRegistry()

    def known(self, q, t, strict):
        """Non-stale cached records answering q, from the mutation log, using events before t (strict) or up to t."""
        cur = {}
        for (te, ident, created, ttl) in self.log:
            if te > t or (strict and te >= t):
                break
            if created is None:
                cur.pop(ident, None)
            else:
                cur[ident] = (created, ttl)
        key = q.key()
        t_ms = t * 1000.0
        out = {}
        for ident, (created, ttl) in cur.items():
            if ident[:3] == key and not (created + 500.0 * ttl <= t_ms) and not (created + 1000.0 * ttl <= t_ms):
                out[ident] = int((created + 1000.0 * ttl - t_ms) / 1000.0)
        return out


def execute(scenario, seed, overrides=None):
    out = runner.Outcome()
    w = World(seed, FaultConfig(**scenario.get("faults", {})), overrides, step_cap=4_000_000,
              timer_slop=scenario.get("timer_slop_us", 0) / 1e6)
    stats = {"query_tx": 0, "questions_judged": 0, "known_answers_checked": 0, "tc_packets": 0, "suppressible_checked": 0,
             "qm_repeats_within_1s": 0, "heard_as_responder": 0, "lookup_queries": 0, "startup_passes": 0,
             "omitted_because_suppressed": 0}
    try:
        drv = Driver(w, scenario)
        hs = {}

        def on_rx(t, rsock, data, addr, tx_idx, copy):
            h = rsock.owner.name
            if h not in w.hosts:
                return
            if h not in hs:
                hs[h] = HostState(w.hosts[h].start_time)
            S = hs[h]
            for e in w.api_log:
                if e["op"] == "register" and e["host"] == h and e["t_done"] is not None and e["exc"] is None and not e.get("_c13"):
                    e["_c13"] = True
                    S.reg.register(e["svc"])
            before = {i: (e.created, e.ttl) for i, e in S.hm.cache.e.items()} if False else None
            dup = len(data) <= wire.MAX_ABS and S.hm.is_duplicate(rsock.label, data, t * 1000.0, addr)
            msg, eff = S.hm.on_rx(t, rsock.label, data, v6sock=rsock.family == AF_INET6, src=addr)
            if msg is None and dup:
                # a copy of the previous datagram is not processed again - but when it is a query, its questions were
                # heard again (by another querier with the same cache, say): "heard ... within the previous 999 ms"
                msg = wire.try_decode(data)
                if msg is None or msg.is_response:
                    return
                eff = None
                stats["heard_in_suppressed_duplicate"] = stats.get("heard_in_suppressed_duplicate", 0) + 1
                # (heard again "with the known answers it was remembered with": the copy may be the last packet of a longer
                # query, the entry keeps its list and gets the new time)
                if S.reg.s and not msg.authorities:
                    for q in msg.questions:
                        if q.qu:
                            continue
                        prev = [e for e in S.heard_log + S.heard_amb if e[1] == q.key()]
                        if prev:
                            last_e = max(prev, key=lambda e: e[0])
                            S.heard_log.append((t * 1000.0, q.key(), set(last_e[2])))
                            for e in S.heard_amb:
                                if e[1] == q.key() and e[0] == last_e[0]:
                                    S.heard_amb.append((t * 1000.0, q.key(), set(e[2])))
                                    break
                            stats["heard_as_responder"] += 1
                        else:
                            req, opt = S.reg.answers(q)
                            if req or opt:
                                kn = {r.ident() for r in msg.answers}
                                S.heard_log.append((t * 1000.0, q.key(), {i for i in kn if i[0] == q.key()[0] and
                                                                          (q.type in (i[1], wire.T_ANY))}))
                    return
            if msg is None:
                return
            if eff is not None:
                for ident in eff.new + eff.refreshed + eff.flushed:
                    e = S.hm.cache.e.get(ident)
                    if e is not None:
                        S.log.append((t, ident, e.created, e.ttl))
                for ident in eff.removed:
                    S.log.append((t, ident, None, None))
                return
            # a query heard by h: recorded in the history when h holds registered records that answer it
            if not S.reg.s or msg.authorities:
                return
            known = {r.ident() for r in msg.answers}

            def heard(qs, kn, amb=False):
                for q in qs:
                    if q.qu:
                        continue
                    req, opt = S.reg.answers(q)
                    if req or opt:
                        # only the known answers to this question count (a query may carry several questions)
                        ent = (t * 1000.0, q.key(), {i for i in kn if i[0] == q.key()[0] and (q.type in (i[1], wire.T_ANY))})
                        (S.heard_amb if amb else S.heard_log).append(ent)
                        stats["heard_as_responder"] += 1

            # a truncated query is heard packet by packet (each with its own known answers); when its last packet arrives,
            # or when the hold timer fires, the whole query is remembered with the union of the known answers and the time
            # of the last packet - the instant at which that entry appears is not modelled, so it is kept as a possibility
            src = (rsock.label, addr[0], addr[1])
            tr = S.trains.get(src)
            if tr is not None and t - tr["t"] > 0.5 + 1e-6:
                tr = None
            if msg.tc:
                if tr is None:
                    tr = S.trains[src] = {"qs": [], "kn": set(), "t": t}
                tr["qs"] += list(msg.questions)
                tr["kn"] |= known
                tr["t"] = t
                heard(msg.questions, known)
                if len(tr["qs"]) > len(msg.questions) or tr["kn"] != known:
                    heard(tr["qs"], tr["kn"], amb=True)
                return
            if tr is not None:
                del S.trains[src]
                heard(list(msg.questions), known)
                heard(tr["qs"] + list(msg.questions), tr["kn"] | known, amb=True)
                return
            heard(msg.questions, known)

        w.net.on_rx = on_rx
        orig_host = drv.op_host

        def op_host(op):
            orig_host(op)
            w.hosts[op["h"]].start_time = w.now
            hs[op["h"]] = HostState(w.now)

        drv.op_host = op_host
        violations = []

        def on_tx(tx):
            if tx.host not in w.hosts or not tx.multicast:
                return
            m = tx.msg
            if m is None or m.is_response or m.authorities:
                return
            S = hs[tx.host]
            S.pending = getattr(S, "pending", [])
            S.pending.append(tx)

        w.net.on_tx = on_tx

        async def main():
            drv.schedule_all()
            await w.sleep_until(scenario["end"])

        w.run(main())
        _oracle(w, drv, scenario, hs, stats, out)
        for e in w.loop.exceptions:
            out.add("C13.loop-exception", f"exception reached the loop handler: {e}")
            break
        out.digest = w.digest()
        out.interleaving = w.interleaving_digest()
        out.sim_seconds = w.now - w.t0
        out.decisions = w.dec.recorded
        out.stats.update({f"fault_{k}": v for k, v in w.net.fault_counts.items()})
        out.stats.update(stats)
        out.nontrivial = stats["query_tx"] >= 3 and (stats["known_answers_checked"] + stats["qm_repeats_within_1s"]) >= 1
        out.sample = {"ops": [o for o in scenario["ops"] if o["op"] in ("browse", "lookup", "register")][:6],
                      "stats": {k: v for k, v in stats.items() if v}}
    finally:
        w.teardown()
    return out


def _oracle(w, drv, sc, hs, stats, out):
    t0 = w.t0
    for h, S in hs.items():
        txs = getattr(S, "pending", [])
        socks = sorted({tx.sock for tx in txs})
        if not socks:
            continue
        txs = [tx for tx in txs if tx.sock == socks[0]]  # one copy per sending socket
        # group into instants
        groups = []
        for tx in txs:
            if groups and groups[-1][0] == tx.t:
                groups[-1][1].append(tx)
            else:
                groups.append((tx.t, [tx]))
        hist = {}  # own QM questions: key -> (t_ms, known idents)
        asked_log = []  # (t_ms, key, known idents) of every QM question this host sent
        heard = []  # replay of heard questions in time order is already folded in S.hist at the end; rebuild timeline
        for t, pk in groups:
            stats["query_tx"] += len(pk)
            # (2) TC continuity: within one instant a truncated packet is followed by another query packet
            for i, tx in enumerate(pk):
                if tx.msg.tc:
                    stats["tc_packets"] += 1
                    if i == len(pk) - 1:
                        out.add("C13.tc-without-continuation", f"host {h}: truncated query at {t - t0:.6f} is the last packet "
                                "of its batch")
                if i > 0 and not tx.msg.questions and not pk[i - 1].msg.tc:
                    out.add("C13.continuation-without-tc", f"host {h}: known-answer continuation packet at {t - t0:.6f} "
                            "follows a packet without the TC bit")
                if len(tx.data) > 1460 and (len(tx.msg.questions) + len(tx.msg.answers)) > 1:
                    out.add("C13.oversize-query", f"host {h}: query packet of {len(tx.data)} bytes at {t - t0:.6f}")
            qs = {}
            ans = {}
            for tx in pk:
                for q in tx.msg.questions:
                    # two askers may put the same question on the wire at one instant, one QU and one QM: the QM
                    # copy is the one that matters for the question history
                    if q.key() not in qs or not q.qu:
                        qs[q.key()] = q
                for r in tx.msg.answers:
                    ans.setdefault(r.ident(), []).append(r.ttl)
            # (1) known answers == non-stale cache entries for the questions asked
            ok = False
            views = []
            for strict in (True, False):
                want = {}
                for q in qs.values():
                    want.update(S.known(q, t, strict))
                views.append(want)
                if set(want) == set(ans) and all(all(abs(x - want[i]) <= 0 for x in ans[i]) for i in ans):
                    ok = True
                    break
            stats["questions_judged"] += len(qs)
            stats["known_answers_checked"] += len(ans)
            if not ok:
                want = views[0]
                missing = [i for i in want if i not in ans]
                extra = [i for i in ans if i not in want]
                ttlbad = [(i, ans[i], want[i]) for i in ans if i in want and any(x != want[i] for x in ans[i])]
                out.add("C13.known-answers", f"host {h} query at {t - t0:.6f} {list(qs.values())[:3]}: known answers differ from "
                        f"the non-stale cache entries: missing {missing[:2]} extra {extra[:2]} wrong remaining-ttl {ttlbad[:2]} "
                        f"({len(ans)} listed, {len(want)} expected)", missing=len(missing), extra=len(extra), ttl=len(ttlbad))
            # lookups omit SRV/TXT questions they hold a non-stale answer for
            for q in qs.values():
                if q.type in (wire.T_SRV, wire.T_TXT) and S.known(q, t, True) and S.known(q, t, False):
                    out.add("C13.srv-txt-asked-despite-answer", f"host {h} asks {q!r} at {t - t0:.6f} although a non-stale "
                            "answer is cached")
            # (3a) a QM question that goes out must not have been suppressible
            t_ms = t * 1000.0
            for q in qs.values():
                if q.qu:
                    continue
                known_now = set(S.known(q, t, True)) | set(S.known(q, t, False))
                cands = []
                if q.key() in hist:
                    cands.append(hist[q.key()])
                for (th, key, kn) in getattr(S, "heard_log", []):
                    if key == q.key() and th < t_ms - 1e-6:
                        cands.append((th, kn))
                stats["suppressible_checked"] += 1
                last = max(cands, key=lambda c: c[0]) if cands else None
                if last is not None and 0 <= t_ms - last[0] <= 999.0:
                    stats["qm_repeats_within_1s"] += 1
                    # (an assembled truncated query heard since - at the same instant or later - with a known answer the
                    # instance does not have makes the question due again)
                    amb_due = any(key == q.key() and last[0] - 1e-6 <= th < t_ms - 1e-6 and (kn - known_now)
                                  for (th, key, kn) in S.heard_amb)
                    if not (last[1] - known_now) and t_ms - last[0] < 998.9 and not amb_due:
                        out.add("C13.needless-repeat", f"host {h} repeats QM question {q!r} at {t - t0:.6f}, "
                                f"{t_ms - last[0]:.3f} ms after it was last asked/heard with a known-answer list it fully "
                                f"knows ({len(last[1])} records)", gap_ms=round(t_ms - last[0], 1))
                hist[q.key()] = (t_ms, set(i for i in ans if i[:3] == q.key()))
                asked_log.append((t_ms, q.key(), hist[q.key()][1]))
        # (4) question type progression and lookup spacing
        for lk in drv.lookups:
            if lk["host"] != h:
                continue
            name = lk["name"].lower()
            e = lk["entry"]
            t_start = lk["t_start"]
            t_done = e["t_done"] if e["t_done"] is not None else w.now
            mine = []
            for t, pk in groups:
                if t < t_start - 1e-9 or t > t_done + 1e-9:
                    continue
                server = name.split(".")[0].replace("tgt", "tgt") + ".local."
                qq = [q for tx in pk for q in tx.msg.questions
                      if (q.type in (wire.T_SRV, wire.T_TXT) and q.name.lower() == name)
                      or (q.type in (wire.T_A, wire.T_AAAA) and q.name.lower() in (name, server))]
                if qq:
                    mine.append((t, qq))
            others = [x for x in drv.lookups if x is not lk and x["host"] == h and x["name"].lower() == name]
            if others or not mine:
                continue
            stats["lookup_queries"] += len(mine)
            forced = lk["qtype"]
            for k, (t, qq) in enumerate(mine):
                # the forced type applies to the first query; every later lookup query is QM
                want_qu = (k == 0) and forced != "QM"
                if any(q.qu != want_qu for q in qq):
                    out.add("C13.lookup-question-type", f"host {h} lookup {lk['name']} (forced={forced}): query {k + 1} at "
                            f"{t - t0:.6f} has QU bits {[q.qu for q in qq]}, expected {'QU' if want_qu else 'QM'}", k=k)
                    break
            if abs(mine[0][0] - t_start) > 1e-6 and (forced == "QU" or forced is None):
                out.add("C13.first-lookup-query-withheld", f"host {h} lookup {lk['name']}: first query at "
                        f"{mine[0][0] - t0:.6f}, lookup started {t_start - t0:.6f}")
            for k in range(2, len(mine)):
                gap = mine[k][0] - mine[k - 1][0]
                if gap < 1.0 - 0.0011:
                    out.add("C13.lookup-spacing", f"host {h} lookup {lk['name']} (forced={forced}): query {k + 1} only "
                            f"{gap * 1000:.1f} ms after query {k}", query=k + 1,
                            gap="initial-delay" if 0.2199 <= gap <= 0.3211 else "other")
                    if k + 1 > 3:
                        break
        # browser start-up: first pass QU unless forced, later QM
        for (hn, bid), lst in drv.listeners.items():
            if hn != h:
                continue
            op = next(o for o in sc["ops"] if o["op"] == "browse" and o["id"] == bid)
            types = [x.lower() for x in op["types"]]
            # another browser of this host on the same type whose first (QU) pass could be mistaken for this one's
            shared = [o for o in sc["ops"] if o["op"] == "browse" and o["h"] == h and o["id"] != bid
                      and set(x.lower() for x in o["types"]) & set(types) and abs(o["t"] + t0 - lst.started) < 0.15]
            if shared:
                continue
            mine = [(t, [q for tx in pk for q in tx.msg.questions if q.type == wire.T_PTR and q.name.lower() in types])
                    for t, pk in groups if t >= lst.started - 1e-9]
            mine = [(t, qq) for t, qq in mine if qq]
            forced = op.get("qtype")
            shared_any = [o for o in sc["ops"] if o["op"] == "browse" and o["h"] == h and o["id"] != bid
                          and set(x.lower() for x in o["types"]) & set(types)]
            if not mine:
                continue
            want_qu = True if forced is None else forced == "QU"
            # this browser's first pass: the first query inside its 20..120 ms window that asks all of its types
            first = [(t, qq) for t, qq in mine if 0.02 - 1e-9 <= t - lst.started <= 0.1211
                     and {q.name.lower() for q in qq} >= set(types)
                     and (shared_any == [] or all(any(q.name.lower() == ty and q.qu == want_qu for q in qq) for ty in types))]
            stats["startup_passes"] += min(4, len(mine))
            if forced == "QM" and shared_any:
                continue  # its own first pass may have been suppressed: no anchor for its schedule on the trace
            if not first:
                if forced != "QM" and w.now - lst.started > 0.2 and (lst.cancelled is None):
                    out.add("C13.first-query-withheld", f"host {h} browser {bid}: no query for all of {types} 20..120 ms "
                            f"after its start at {lst.started - t0:.6f} although its first question is QU "
                            f"(queries seen at {[round(t - t0, 4) for t, _ in mine][:4]})")
                continue
            def judge(t1, q1):
                """Violations under the hypothesis that this browser's first pass was the query at t1."""
                res = []
                if not all(any(q.name.lower() == ty and q.qu == want_qu for q in q1) for ty in types):
                    res.append(("C13.browser-first-question-type", f"host {h} browser {bid} (forced={forced}): first "
                                f"query QU bits {[q.qu for q in q1]}"))
                if not shared_any:
                    later = [(t, qq) for t, qq in mine if t > t1][:3]
                    for t, qq in later:
                        want = False if forced is None else forced == "QU"
                        if any(q.qu != want for q in qq):
                            res.append(("C13.browser-later-question-type", f"host {h} browser {bid} (forced={forced}): "
                                        f"query at {t - t0:.6f} QU bits {[q.qu for q in qq]}"))
                            break
                # (3b) the start-up passes at +1 s, +5 s, +14 s ask every type unless the question is suppressible
                for dt in (1.0, 5.0, 14.0):
                    tp = t1 + dt
                    if tp > w.now - 0.01 or (lst.cancelled is not None and tp >= lst.cancelled):
                        break
                    present = {q.name.lower() for t, qq in mine if abs(t - tp) <= 0.0011 for q in qq}
                    for ty in types:
                        if ty in present:
                            continue
                        if forced == "QU":
                            res.append(("C13.question-withheld", f"host {h} browser {bid}: QU question for {ty} missing "
                                        f"from the start-up pass at {tp - t0:.6f}"))
                            continue
                        key = (ty, wire.T_PTR, wire.C_IN)
                        tp_ms = tp * 1000.0
                        cands = [(ta, kn) for (ta, k2, kn) in asked_log if k2 == key and ta < tp_ms - 1e-6]
                        cands += [(th, kn) for (th, k2, kn) in S.heard_log + S.heard_amb if k2 == key and th < tp_ms + 2.0]
                        q = wire.Q(ty, wire.T_PTR)
                        known_now = set(S.known(q, tp, True)) | set(S.known(q, tp, False))
                        sup = any(-2.0 <= tp_ms - ta <= 999.0 + 2.0 and not (kn - known_now) for ta, kn in cands)
                        if sup:
                            stats["omitted_because_suppressed"] += 1
                        else:
                            res.append(("C13.question-withheld", f"host {h} browser {bid}: question for {ty} missing from "
                                        f"the start-up pass at {tp - t0:.6f} although it was not asked or heard within the "
                                        f"last 999 ms (last: {[round(tp_ms - ta, 1) for ta, kn in cands][-3:]} ms ago)"))
                return res

            # with several browsers on one type any query in the window may be this browser's first pass: the
            # schedule must hold for at least one of the candidates
            verdicts = [judge(t1, q1) for t1, q1 in first]
            if not any(v == [] for v in verdicts):
                for clause, text in verdicts[0]:
                    out.add(clause, text)

if __name__ == "__main__":
    import checks.c13 as me

    sys.exit(runner.main(me))
