"""C09 - registration probes first, detects conflicts, then announces completely."""
import sys

from sim import runner, wire
from sim.driver import Driver
from sim.net import FaultConfig
from sim.svc import SvcRecords, gen_services
from sim.world import World

PROPERTY = "C09"
LEVEL = "exploration"
QUICK_BUDGET = 25.0
THOROUGH_BUDGET = 900.0
RULE = ("One real registrant; the contested instance name is held by a scripted owner that answers probes after a "
        "one-way delay of 0..150 ms (multicast and/or unicast), or whose PTR is pre-loaded into the registrant's cache, or "
        "that announces spontaneously at a seed-chosen instant relative to the three probe instants (before the first, "
        "between two, at a probe instant +-1 ms, after the last), including chains of already-taken -2, -3 ... names, "
        "goodbyes of the conflicting record, or by a second real instance that registered the name first; services with "
        "any v4/v6 mix and custom TTLs; allow_name_change on/off. Oracle on the registrant's trace and API result against "
        "its per-host reference cache. Non-trivial = the registration finished (either way) and either a conflicting PTR "
        "was delivered during it or three probes were observed.")
ASSUMPTIONS = [
    "the conflicting name is spelled exactly like the proposed one (as the property states)",
    "a conflicting record delivered within 1 us of the last probe instant is a tie and outside the claim",
]

CHECK = 0.175
ANN = 0.225
TOL = 0.0022


def generate(rng, tier):
    t1 = rng.choice(["_http._tcp.local.", "_ipp._tcp.local."])
    svc = gen_services(rng, 1, types=[t1], hosts=["hostr.local."], custom_ttl=rng.random() < 0.4, prefix="Name")[0]
    if rng.random() < 0.3:
        svc.pop("server")  # ServiceInfo without server=: the host name defaults to the (final) instance name
    base = svc["name"][: -len(t1) - 1]
    mode = rng.choice(["none", "scripted", "scripted", "scripted", "real", "preload"])
    allow = rng.random() < 0.6
    ops = [{"t": 0.0, "op": "host", "h": "R", "ip": "10.0.0.1", "layout": rng.choice(["default", "multi"])},
           {"t": 0.0, "op": "peer", "p": "O", "ip": "10.0.0.9", "ports": [5353]}]
    t_reg = rng.choice([0.5, 2.0, 3.0])
    owned = []
    reactive = None
    if mode == "scripted":
        chain = rng.choice([1, 1, 2, 3])
        owned = [svc["name"]] + [f"{base}-{k}.{t1}" for k in range(2, chain + 1)]
        reactive = {"delay_us": [rng.choice([0, 1000, 50000, 100000, 150000, rng.randrange(0, 150001)]) for _ in range(6)],
                    "via": rng.choice(["mcast", "ucast", "both"]), "names": owned}
        # spontaneous announcements at chosen offsets relative to the first probe instant
        for _ in range(rng.choice([0, 0, 1, 2])):
            off = rng.choice([-0.3, -0.001, 0.0, 0.001, 0.1, 0.174, 0.175, 0.176, 0.3, 0.349, 0.35, 0.351, 0.5])
            nm = rng.choice(owned)
            if rng.random() < 0.2:
                nm = nm.upper()  # the other host spells the instance name in its own letter case: the same name
            ttl = rng.choice([4500, 4500, 120, 1, 0])
            ops.append({"t": round(t_reg + off + rng.choice([0.0, 0.0000005]), 7), "op": "send", "p": "O",
                        "msg": {"qr": 1, "an": [wire.RR(t1, wire.T_PTR, ttl, nm).to_json()]}})
        if rng.random() < 0.5:
            reactive = None
    elif mode == "preload":
        chain = rng.choice([1, 2, 4])
        owned = [svc["name"]] + [f"{base}-{k}.{t1}" for k in range(2, chain + 1)]
        for nm in owned:
            if rng.random() < 0.15:
                nm = nm.upper()
            ops.append({"t": round(t_reg - rng.choice([0.2, 1.0, 0.0005]), 6), "op": "send", "p": "O",
                        "msg": {"qr": 1, "an": [wire.RR(t1, wire.T_PTR, rng.choice([4500, 1125, 2]), nm).to_json()]}})
        if rng.random() < 0.35:
            # a cache-flush PTR for another instance marks the (older than 1 s) contested PTRs to expire in 1 s:
            # at registration time they are expired but not yet purged
            ops = [o for o in ops if o["op"] != "send"]
            t_reg = 5.0
            for nm in owned:
                ops.append({"t": 1.5, "op": "send", "p": "O",
                            "msg": {"qr": 1, "an": [wire.RR(t1, wire.T_PTR, 4500, nm).to_json()]}})
            # flushed at t_f: expired at t_f + 1 s, still unpurged at 5.0 (next purge at 10 s)
            ops.append({"t": rng.choice([2.8, 3.9, 3.999, 4.0, 4.001, 4.3, 4.7]), "op": "send", "p": "O",
                        "msg": {"qr": 1, "an": [wire.RR(t1, wire.T_PTR, 4500, "Other." + t1, flush=True).to_json()]}})
        elif rng.random() < 0.3:
            ops.append({"t": round(t_reg + rng.choice([0.05, 0.2, 0.34]), 6), "op": "send", "p": "O",
                        "msg": {"qr": 1, "an": [wire.RR(t1, wire.T_PTR, 0, owned[-1]).to_json()]}})
        # the owner may also re-announce a name while the registrant is probing: for an entry that is still cached
        # (even expired but not purged) this is a refresh, which wakes nobody
        for _ in range(rng.choice([0, 1, 1, 2])):
            off = rng.choice([0.001, 0.1, 0.174, 0.176, 0.2, 0.26, 0.3, 0.349, 0.351, 0.5])
            ops.append({"t": round(t_reg + off + 0.0000005, 7), "op": "send", "p": "O",
                        "msg": {"qr": 1, "an": [wire.RR(t1, wire.T_PTR, rng.choice([4500, 120]), rng.choice(owned)).to_json()]}})
    elif mode == "real":
        other = dict(svc)
        other["server"] = "hosth.local."
        other["addrs"] = ["10.0.0.2"]
        ops.append({"t": 0.0, "op": "host", "h": "H", "ip": "10.0.0.2"})
        ops.append({"t": round(rng.choice([0.01, t_reg - 0.4, t_reg - 0.1, t_reg + 0.01]), 6), "op": "register", "h": "H",
                    "svc": other})
    if t_reg >= 2.0 and rng.random() < 0.25:
        # the application registered and unregistered the same ServiceInfo before: what it registers now is a used object
        # (its defaulted server name is filled in, its goodbyes may still be going out)
        t_first = round(max(0.01, t_reg - rng.choice([2.5, 3.0])), 6)
        ops.append({"t": t_first, "op": "register", "h": "R", "svc": svc, "allow_name_change": False})
        ops.append({"t": round(t_reg - rng.choice([0.0, 0.02, 0.13, 0.3, 0.8]), 6), "op": "unregister", "h": "R",
                    "name": svc["name"]})
        ops = [o for o in ops if not (o["op"] == "send" and o["t"] <= t_first + 1.0)]
    ops.append({"t": t_reg, "op": "register", "h": "R", "svc": svc, "allow_name_change": allow, "reuse": True})
    if rng.random() < 0.2:
        # the registrant's process is descheduled for a while during probing or announcing
        ops.append({"t": round(t_reg + rng.choice([0.05, 0.12, 0.17, 0.2, 0.3, 0.36, 0.5]), 6), "op": "stall", "h": "R",
                    "dur": rng.choice([0.03, 0.1, 0.18, 0.3, 0.5])})
    if rng.random() < 0.25:
        # the same instance registers the same name again later
        ops.append({"t": round(t_reg + rng.choice([1.5, 2.0, 3.0]), 6), "op": "register", "h": "R", "svc": svc,
                    "allow_name_change": rng.random() < 0.5})
    ops.sort(key=lambda o: o["t"])
    faults = {"max_delay_us": rng.choice([0, 1000, 100000, 150000]), "loop_delay_us": rng.choice([0, 500, 1000]),
              "dup_p": rng.choice([0.0, 0.1])}
    return {"ops": ops, "faults": faults, "end": round(t_reg + 6.0, 6), "reactive": reactive, "type": t1, "mode": mode,
            "timer_slop_us": rng.choice([0, 0, 1, 50, 300])}


def execute(scenario, seed, overrides=None):
    out = runner.Outcome()
    w = World(seed, FaultConfig(**scenario.get("faults", {})), overrides, timer_slop=scenario.get("timer_slop_us", 0) / 1e6)
    stats = {"conflict_delivered_during_registration": 0, "renamed": 0, "nonunique_raised": 0, "registered": 0,
             "owner_replies": 0, "probe_sets_checked": 0, "second_registration_same_name": 0}
    try:
        drv = Driver(w, scenario)
        rxlog = []
        w._c09_rx = rxlog

        def on_rx(t, rsock, data, addr, tx_idx, copy):
            if rsock.owner.name == "R":
                rxlog.append((t, rsock.label, data, addr))

        w.net.on_rx = on_rx
        react = scenario.get("reactive")

        def setup_reactor():
            o = w.peers.get("O")
            if o is None or not react:
                return
            state = {"n": 0}
            names = {n.lower(): n for n in react["names"]}

            def reactor(data, addr, sock):
                msg = wire.try_decode(data)
                if msg is None or msg.is_response or addr[0] != "10.0.0.1":
                    return
                for r in msg.authorities:
                    if r.type == wire.T_PTR and r.rdata.lower() in names:
                        d = react["delay_us"][state["n"] % len(react["delay_us"])] / 1e6
                        state["n"] += 1
                        nm = names[r.rdata.lower()]
                        resp = wire.encode(wire.response([wire.RR(r.name, wire.T_PTR, 4500, nm)]))
                        stats["owner_replies"] += 1

                        def go(resp=resp):
                            if react["via"] in ("mcast", "both"):
                                o.send(resp)
                            if react["via"] in ("ucast", "both"):
                                o.send(resp, ("10.0.0.1", 5353))

                        w.loop.call_at(w.now + d, go, context=o.new_context())

            o.reactors.append(reactor)

        async def main():
            drv.schedule_all()
            await w.sleep_until(0.0000001)
            setup_reactor()
            await w.sleep_until(scenario["end"])

        w.run(main())
        _oracle(w, drv, scenario, None, stats, out)
        for e in w.loop.exceptions:
            out.add("C09.loop-exception", f"exception reached the loop handler: {e}")
            break
        out.digest = w.digest()
        out.interleaving = w.interleaving_digest()
        out.sim_seconds = w.now - w.t0
        out.decisions = w.dec.recorded
        out.stats.update({f"fault_{k}": v for k, v in w.net.fault_counts.items()})
        out.stats.update(stats)
        out.sample = {"mode": scenario["mode"], "ops": [o for o in scenario["ops"] if o["op"] != "host"][:5],
                      "reactive": scenario.get("reactive"), "stats": {k: v for k, v in stats.items() if v}}
    finally:
        w.teardown()
    return out


class PtrTimeline:
    """When was PTR(type -> alias) present and unexpired in R's cache, judged from the traffic delivered to R?"""

    @staticmethod
    def build(rxlog, type_):
        from sim.models import GuardSet, ModelCache

        tl = PtrTimeline()
        tl.iv = {}  # alias.lower() -> [[start_s, end_s], ...]
        cache = ModelCache(None)
        guards = GuardSet()
        ty = type_.lower()
        for (t, label, data, addr) in rxlog:
            if len(data) > wire.MAX_ABS or not guards.check(label, data, t * 1000.0, addr):
                continue
            msg = wire.try_decode(data)
            guards.accept(label, data, t * 1000.0, bool(msg and any(q.qu for q in msg.questions)), addr)
            if msg is None or not msg.is_response:
                continue
            eff = cache.apply_response(t * 1000.0, msg.records())
            for ident in eff.new + eff.refreshed + eff.flushed:
                if ident[1] != wire.T_PTR or ident[0] != ty or ident not in cache.e:
                    continue
                end = cache.e[ident].expires() / 1000.0
                lst = tl.iv.setdefault(ident[3], [])
                if lst and lst[-1][1] >= t:
                    lst[-1][1] = end
                else:
                    lst.append([t, end])
            for ident in eff.removed:
                if ident[1] == wire.T_PTR and ident[0] == ty:
                    lst = tl.iv.get(ident[3])
                    if lst and lst[-1][1] > t:
                        lst[-1][1] = t
        return tl

    def present_in(self, alias, a, b, eps=2e-6, zero_ok=False):
        """Was the record present (unexpired) at some instant in [a, b - eps)?

        A record added and withdrawn at one clock value may or may not have been visible to a task in between (same or
        different loop iteration): zero_ok says which way the caller wants that doubt resolved."""
        for s, e in self.iv.get(alias.lower(), []):
            if e <= s:
                if zero_ok and a - 1e-9 <= s < b:
                    return True
                continue
            if s < b - eps and e > a:
                return True
        return False

    def first_present(self, alias, a, b):
        for s, e in self.iv.get(alias.lower(), []):
            if s < b and e > a and e > s:
                return max(s, a)
        return None


def _oracle(w, drv, sc, hm, stats, out):
    t0 = w.t0
    type_ = sc["type"]
    tl = PtrTimeline.build(w._c09_rx, type_)
    rtx = [tx for tx in w.net.trace if tx.host == "R" and tx.msg is not None]
    regs = [e for e in w.api_log if e["op"] == "register" and e["host"] == "R"]
    final_names = []
    held_as = {}  # final name -> name it was asked for (the application unregisters by the object, i.e. by that name)
    overlap = any(a is not b and a["t_done"] is not None and a["t_call"] <= b["t_call"] < a["t_done"]
                  for a in regs for b in regs)
    if overlap:
        return  # two registrations in flight at once cannot be told apart on the trace (not generated; shrink artefact)
    for e in regs:
        if e["t_done"] is None:
            out.add("C09.register-hangs", f"registration called at {e['t_call'] - t0:.6f} never finished")
            continue
        svc = e["svc"]
        orig = svc["name"]
        base = orig[: -len(type_) - 1]
        allow = e.get("allow_name_change", False)
        t_call, t_done = e["t_call"], e["t_done"]
        probes = []
        for tx in rtx:
            if tx.t + 1e-9 < t_call or tx.t > t_done + 1e-9 or tx.msg.is_response or not tx.msg.authorities:
                continue
            probes.append(tx)
        # one probe = one multicast datagram per sending socket; take the first socket's
        socks = sorted({tx.sock for tx in probes})
        if socks:
            probes = [tx for tx in probes if tx.sock == socks[0]]
        seq = []  # [(name, [times])]
        bad_form = None
        for tx in probes:
            m = tx.msg
            a = m.authorities[0]
            ok = (tx.multicast and len(m.questions) == 1 and m.questions[0].type == wire.T_PTR and m.questions[0].qu
                  and m.questions[0].name.lower() == type_.lower() and len(m.authorities) == 1 and a.type == wire.T_PTR
                  and a.name.lower() == type_.lower() and not m.answers and not m.additionals and m.id == 0)
            if not ok and bad_form is None:
                bad_form = f"probe at {tx.t - t0:.6f} is malformed: {m!r}"
            if seq and seq[-1][0] == a.rdata:
                seq[-1][1].append(tx.t)
            else:
                seq.append((a.rdata, [tx.t]))
        if bad_form:
            out.add("C09.probe-format", bad_form)
        conflict_seen = tl.present_in(orig, t_call, t_done + 1e-6, eps=0) or any(
            tl.present_in(nm, t_call, t_done + 1e-6, eps=0) for nm, _ in seq)
        if conflict_seen:
            stats["conflict_delivered_during_registration"] += 1
        if e["exc"] is not None:
            if e["exc"] == "NonUniqueNameException":
                stats["nonunique_raised"] += 1
                out.nontrivial = True
                cur = seq[-1][0] if seq else orig
                if allow:
                    out.add("C09.raised-despite-rename", f"NonUniqueNameException although allow_name_change was set "
                            f"(name {cur})")
                if not tl.present_in(cur, t_call - 1e-6, t_done + 1e-6, eps=0, zero_ok=True) and cur not in final_names:
                    out.add("C09.spurious-conflict", f"registration of {cur} failed with NonUniqueNameException at "
                            f"{t_done - t0:.6f} but no PTR for that name was in the cache during the registration")
            elif e["exc"] == "ServiceNameAlreadyRegistered":
                stats["second_registration_same_name"] += 1
            else:
                out.add("C09.unexpected-exception", f"registration raised {e['exc']}")
            continue
        # success
        info = e["info"]
        final = e.get("named", {}).get("name", info.name)
        stats["registered"] += 1
        for u in w.api_log:
            # a name that was unregistered in between is free again
            if u["op"] == "unregister" and u["host"] == "R" and u["t_call"] <= t_call and not u.get("_c09_seen"):
                u["_c09_seen"] = True
                gone = u["info"].name if False else u["args"]
                final_names[:] = [n for n in final_names if not (n.lower() == gone.lower() or
                                                                 held_as.get(n.lower()) == gone.lower())]
        if final in final_names:
            out.add("C09.same-name-twice", f"the instance registered {final} twice")
        final_names.append(final)
        held_as[final.lower()] = orig.lower()
        if final != orig:
            stats["renamed"] += 1
            if not allow:
                out.add("C09.renamed-without-permission", f"{orig} became {final} although allow_name_change was not set")
        if not seq or seq[-1][0] != final:
            out.add("C09.probe-schedule", f"no probes for the final name {final}; probed {[(n, len(ts)) for n, ts in seq]}")
            continue
        fin = seq[-1][1]
        s0 = fin[0]

        def stalled(a, b):
            # time within [a, b] during which the registrant's process was descheduled: lateness it is not to blame for
            return sum(max(0.0, min(b, y) - max(a, x)) for x, y, hn in drv.stalls if hn == "R")

        okp = len(fin) == 3 and abs(t_done - fin[-1]) <= TOL + stalled(fin[-1], t_done) and all(
            CHECK - TOL <= fin[k] - fin[k - 1] <= CHECK + TOL + stalled(fin[k - 1], fin[k]) for k in (1, 2))
        stats["probe_sets_checked"] += 1
        out.nontrivial = True
        if not okp:
            out.add("C09.probe-schedule", f"final name {final}: probes at {[round(x - s0, 4) for x in fin]} s after the "
                    f"first (expected 0, 0.175, 0.350) and registration returned {t_done - s0:.4f} s after it", n=len(fin))
        for nm, ts in seq[:-1]:
            if len(ts) > 2 or any(not CHECK - TOL <= ts[k] - ts[k - 1] <= CHECK + TOL + stalled(ts[k - 1], ts[k])
                                  for k in range(1, len(ts))):
                out.add("C09.probe-schedule", f"abandoned name {nm}: probes at {[round(x - ts[0], 4) for x in ts]}")
        # candidate chain: orig, -2, -3 ... final
        chain = [orig]
        k = 2
        while chain[-1] != final and k < 50:
            chain.append(f"{base}-{k}.{type_}")
            k += 1
        if chain[-1] != final:
            out.add("C09.rename-form", f"final name {final} is not {orig} nor one of its -N variants")
            continue
        t_last_probe = fin[-1]
        # detection: the final name must not have been advertised before its last probe
        t_cand = t_call if final == orig else s0  # since when this name was the candidate
        if tl.present_in(final, t_cand, t_last_probe):
            out.add("C09.conflict-missed", f"{final} registered although a PTR for exactly that name was in the cache at "
                    f"{tl.first_present(final, t_cand, t_last_probe) - t0:.6f}, before the last probe at "
                    f"{t_last_probe - t0:.6f}", renamed=final != orig)
        # every skipped name must have been taken when it was skipped
        for nm in chain[:-1]:
            if not tl.present_in(nm, t_call - 1e-6, s0 + 1e-6, eps=0, zero_ok=True):
                out.add("C09.not-first-free", f"{nm} was skipped for {final} but no PTR for it was in the cache before the "
                        f"first probe of {final} at {s0 - t0:.6f}")
        # announcements
        recs = SvcRecords(dict(svc, name=final))
        want = {(r.ident(), r.ttl, r.flush) for r in recs.all()}
        socks_a = sorted({tx.sock for tx in rtx if tx.multicast and tx.msg.is_response})
        ta = t_last_probe
        for k3 in range(3):
            hit = [tx for tx in rtx if tx.multicast and tx.msg.is_response and
                   -TOL <= tx.t - ta <= TOL + stalled(ta - TOL, tx.t) and
                   {(r.ident(), r.ttl, r.flush) for r in tx.msg.answers} == want]
            if hit:
                ta = min(tx.t for tx in hit) + ANN
            if not hit:
                near = [tx for tx in rtx if tx.multicast and tx.msg.is_response and abs(tx.t - ta) <= 0.05]
                out.add("C09.announcement", f"{final}: announcement {k3 + 1} expected at {ta - t0:.6f} with PTR, SRV, TXT, all "
                        f"addresses and NSEC (flush on all but PTR, configured TTLs) not found; responses near: "
                        f"{[(round(tx.t - t0, 4), tx.msg.answers[:2]) for tx in near][:2]}", k=k3)
                break
        # a name is not spoken for before it has been probed: no response - not even a goodbye - carries records of the
        # name the service was renamed to before the last probe for that name
        if final != orig:
            for tx in rtx:
                if tx.t < t_call or tx.t >= t_last_probe - 1e-9 or not tx.msg.is_response:
                    continue
                mine = [r for r in tx.msg.records() if r.name.lower() == final.lower() or
                        (r.type == wire.T_PTR and r.rdata.lower() == final.lower())]
                if mine:
                    out.add("C09.response-before-probing", f"{final}: {mine[0]!r} sent at {tx.t - t0:.6f}, before the last "
                            f"probe for that name at {t_last_probe - t0:.6f} (registration called at {t_call - t0:.6f})",
                            goodbye=mine[0].ttl == 0)
                    break
        # the contested names are never announced or answered for
        for nm in chain[:-1]:
            if nm in final_names:
                continue  # this instance holds that name itself (an earlier registration)
            bad = SvcRecords(dict(svc, name=nm))
            bad_ids = {bad.ptr.ident(), bad.srv.ident(), bad.txt.ident()}
            t_next = min([x["t_call"] for x in regs if x["t_call"] > t_call], default=float("inf"))
            for tx in rtx:
                if tx.t < t_call or tx.t >= t_next or not tx.msg.is_response:
                    continue
                if any(r.ttl > 0 and (r.ident() in bad_ids or r.name.lower() == nm.lower() or
                                      (r.type == wire.T_SRV and r.rdata[3].lower() == nm.lower()))
                       for r in tx.msg.records()):
                    out.add("C09.contested-name-used", f"{nm} was contested but the registrant sent {tx.msg!r} at "
                            f"{tx.t - t0:.6f}"[:300])
                    break


if __name__ == "__main__":
    import checks.c09 as me

    sys.exit(runner.main(me))
