"""C07 - end-to-end discovery converges to the set of registered services."""
import sys

from sim import runner, wire
from sim.driver import Driver
from sim.net import FaultConfig
from sim.svc import gen_services
from sim.world import World
from zeroconf import IPVersion

PROPERTY = "C07"
LEVEL = "exploration"
QUICK_BUDGET = 40.0
THOROUGH_BUDGET = 1200.0
RULE = ("2..5 real instances on one simulated link, 1..6 services of 1..3 types spread over them, browsers started before, "
        "during and after the registrations (some of them resolving every added service with a 3 s lookup from inside "
        "add_service), register/update/unregister/close/crash/restart/browser-cancel issued at seed-chosen virtual "
        "times; per (transmission, receiver) delay 0..100 ms, duplication, reordering, exactly one dropped datagram per "
        "run (for one receiver or for all; a sub-batch enumerates the drop position over every transmission index of a "
        "fixed scenario), the library's own jitter. Oracle: "
        "17 s after the last change every live browser reports exactly the registered instances of its types on live "
        "hosts; lookups made from add_service for services that stay registered resolve to a registered version. "
        "20 % of the runs are 'hot': a change (unregister, update, close) is issued a few ms after the owner's first "
        "unicast reply to a browser that has just started on a host that has just joined, delays are none or maximal, the "
        "lost datagram is one the change itself sends. 35 % of the updates change the registered ServiceInfo in place. "
        "Non-trivial = at least 2 hosts, one browser and one registration took part.")
ASSUMPTIONS = [
    "settling time 17 s after the last change (4th start-up query at ~14.1 s + 1.2 s protected answer + 0.5 s aggregation + "
    "link delays); the horizon stays below 120 s after the last change so that C10's refresh logic is not involved, except "
    "in the 'late browser' flavour, where nobody browses until browsers start 30 s .. 73 min after the last change",
    "services of a crashed host (no goodbye) are 'don't care' until their TTL would have run out",
    "instance names are unique across hosts (conflict handling is C09's subject)",
    "an update follows the previous announcement burst of that service by more than 1 s (cache-flush retires only records "
    "received more than one second ago, RFC 6762 10.2, so a faster update legitimately leaves both versions cached)",
    "no API call is made on an instance after its close() was called",
    "host stalls are not injected (the property's fault model has none: three goodbyes read microseconds apart after a "
    "stall cannot be told from link-layer copies by any receiver); loss is limited to one datagram per run as stated",
    "a duplicated datagram's second copy is a datagram like any other: its own delay within the 100 ms",
]

TYPES = ["_http._tcp.local.", "_ipp._tcp.local.", "_x-y._udp.local."]
SETTLE = 17.0


def _generate_hot(rng):
    """A change issued in the instants around the start of a browser on another host: the unicast answers to the browser's
    first (QU) query, the goodbyes or the update's announcements and the loss are all in flight together, with delays at
    the extremes of what the link allows (worst-case reordering across the browser's sockets)."""
    nh = rng.choice([2, 2, 3])
    hosts = [f"H{i}" for i in range(nh)]
    types = TYPES[:rng.choice([1, 2])]
    ops = [{"t": 0.0, "op": "host", "h": h, "ip": f"10.0.0.{i + 1}",
            "layout": rng.choice(["multi", "multi", "default"]) if i else rng.choice(["default", "multi"])}
           for i, h in enumerate(hosts)]
    svcs = []
    for i in range(rng.choice([1, 1, 2, 3])):
        hi = rng.choice([0, 0, nh - 1])
        s = gen_services(rng, 1, types=types, hosts=[f"host{hi}.local."], prefix=f"S{i}x", custom_ttl=False)[0]
        s["addrs"] = [f"10.0.0.{hi + 1}"] + ([f"fe80::{hi + 1}"] if rng.random() < 0.3 else [])
        if hi % 2 == 1:
            s["host_ttl"] = 60
        ops.append({"t": round(0.05 + 0.3 * rng.random(), 6), "op": "register", "h": hosts[hi], "svc": s})
        svcs.append((hosts[hi], s))
    tb = round(rng.choice([2.0, 5.0]) + rng.random(), 6)
    bh = rng.choice(hosts[1:])
    if rng.random() < 0.7:
        # the browsing host joins the link just before it browses: it has heard nothing yet
        for o in ops:
            if o["op"] == "host" and o["h"] == bh:
                o["t"] = round(tb - rng.choice([0.01, 0.1, 0.5]), 6)
        ops = [o for o in ops if o["op"] == "host" or o["h"] != bh]
        svcs = [x for x in svcs if x[0] != bh]
        if not svcs:
            return _generate_hot(rng)
    ops.append({"t": tb, "op": "browse", "h": bh, "id": "b0", "types": list(types),
                "lookup_on_add": 3000 if rng.random() < 0.5 else None})
    if rng.random() < 0.3:
        ops.append({"t": round(rng.choice([0.5, tb + 0.01, tb + 1.0]), 6), "op": "browse", "h": rng.choice(hosts), "id": "b1",
                    "types": [types[0]], "lookup_on_add": None})
    h, s = svcs[0]
    tc = round(tb + rng.choice([0.0, 0.02, 0.05, 0.1, 0.15, 0.25, 0.4, 1.0]) + 0.05 * rng.random(), 6)
    kind = rng.choice(["unregister", "unregister", "unregister", "unregister", "update", "close"])
    no_trigger = False
    if kind == "unregister":
        ops.append({"t": tc, "op": "unregister", "h": h, "name": s["name"]})
        k2 = rng.random()
        if k2 < 0.2:
            ops.append({"t": round(tc + rng.choice([0.5, 1.0, 3.0]), 6), "op": "register", "h": h, "svc": dict(s, port=s["port"] + 7)})
        elif k2 < 0.35:
            # ... and at once registered again without probing (cooperating_responders: the documented way to skip it),
            # with another address set: the goodbyes of the old registration and the announcements of the new one are
            # on the wire together
            s3 = dict(s, port=s["port"] + 7)
            s3["addrs"] = s["addrs"][:1] if len(s["addrs"]) > 1 else [f"10.77.1.{rng.randrange(1, 250)}"]
            ops.append({"t": round(tc + rng.choice([0.0, 0.000001, 0.001, 0.1, 0.2]), 6), "op": "register", "h": h, "svc": s3,
                        "cooperating": True})
            # (a browser that starts afterwards looks the service up from its add_service)
            ops.append({"t": round(tc + rng.choice([2.0, 3.0, 6.0]), 6), "op": "browse", "h": bh, "id": "b2", "types": list(types),
                        "lookup_on_add": 3000})
            no_trigger = True
    elif kind == "update":
        s2 = dict(s, port=s["port"] + 1, props={"ver": "2"})
        if rng.random() < 0.5:
            s2["addrs"] = s["addrs"][:1] if len(s["addrs"]) > 1 and rng.random() < 0.5 else [f"10.77.0.{rng.randrange(1, 250)}"]
        ops.append({"t": tc, "op": "update", "h": h, "svc": s2, "mutate": rng.random() < 0.4})
    else:
        ops.append({"t": tc, "op": "close", "h": h})
    if not no_trigger and rng.random() < 0.75:
        # ... issued a few milliseconds after the owner's first unicast reply (its answer to the new browser's QU query)
        # left, at the latest at the time drawn above
        for o in ops:
            if o["t"] == tc and o["op"] == kind:
                o["t"] = round(tb + 0.45, 6)
                o["after_ucast"] = rng.choice([0.0, 0.001, 0.005, 0.005, 0.01, 0.02, 0.02, 0.05, 0.12])
    ops.sort(key=lambda o: o["t"])
    closing = {o["h"]: o["t"] for o in ops if o["op"] == "close"}
    ops = [o for o in ops if o["op"] == "close" or o.get("h") not in closing or o["t"] < closing[o["h"]]]
    faults = {"max_delay_us": 100000, "loop_delay_us": rng.choice([0, 500, 1000]), "dup_p": rng.choice([0.0, 0.0, 0.05]),
              "extreme_p": rng.choice([0.5, 0.8, 1.0])}
    sc = {"timer_slop_us": rng.choice([0, 0, 1, 50, 300]), "ops": ops, "faults": faults, "drop": None, "fixed": False,
          "hosts": hosts, "hot": True}
    if rng.random() < 0.85:
        # the one lost datagram is one of those the change itself sends
        sc["drop_after"] = [h, tc, rng.choice([0, 1, 2, 2, 3, 3, 4]), rng.choice([None, bh, bh])]
    return sc


def generate(rng, tier):
    if rng.random() < 0.2:
        return _generate_hot(rng)
    fixed = rng.random() < 0.15  # the fixed scenario of the single-loss enumeration sub-batch
    r2 = __import__("random").Random(7) if fixed else rng
    late = (not fixed) and r2.random() < 0.15
    nh = r2.choice([2, 2, 3, 4, 5])
    hosts = [f"H{i}" for i in range(nh)]
    ntypes = r2.choice([1, 2, 3])
    types = TYPES[:ntypes]
    ops = []
    t_up = {}
    for i, h in enumerate(hosts):
        # some hosts join the link late: they missed earlier announcements and depend on their own queries
        t_up[h] = 0.0 if (i == 0 or r2.random() < 0.5) else r2.choice([1.5, 4.0, 9.0, 13.0])
        ops.append({"t": t_up[h], "op": "host", "h": h, "ip": f"10.0.0.{i + 1}", "layout": r2.choice(["default", "default", "multi"])})
    nsvc = r2.choice([1, 2, 3, 4, 6])
    svcs = []
    t = 0.05
    last = 0.0
    for i in range(nsvc):
        h = r2.choice(hosts)
        hi = hosts.index(h)
        s = gen_services(r2, 1, types=types, hosts=[f"host{hi}.local."], prefix=f"S{i}x", custom_ttl=False)[0]
        s["addrs"] = [f"10.0.0.{hi + 1}"] + ([f"fe80::{hi + 1}"] if r2.random() < 0.3 else [])
        # one host TTL per host name: services that share a host name advertise the same address records
        if hi % 2 == 1:
            s["host_ttl"] = 60
        if r2.random() < 0.2:
            s["other_ttl"] = r2.choice([1200, 2000, 9000])
        tr = round(r2.choice([0.05, 0.5, 2.0, 6.0, 12.0]) + r2.random() * 0.2, 6)
        ops.append({"t": tr, "op": "register", "h": h, "svc": s})
        svcs.append((h, s, tr))
        k = r2.random()
        tdone = tr + 0.35
        if k < 0.25:
            tu = round(tdone + r2.choice([0.02, 0.1, 0.3, 0.5, 1.0, 3.0, 8.0]) + r2.random() * r2.choice([0.1, 1.0]), 6)
            ops.append({"t": tu, "op": "unregister", "h": h, "name": s["name"]})
        elif k < 0.4:
            s2 = dict(s)
            s2["port"] = s["port"] + 1
            s2["props"] = {"ver": "2"}
            if r2.random() < 0.3:
                s2["addrs"] = [f"10.77.{len(ops) % 250}.{r2.randrange(1, 250)}"]  # the host moved to another address
            elif len(s["addrs"]) > 1 and r2.random() < 0.5:
                s2["addrs"] = s["addrs"][:1]  # the host lost its IPv6 address
            # (not in the late flavour: a query answered with the old TXT less than a second before the update leaves
            # both generations cached - RFC 6762 10.2 - and after two minutes only the long-lived old one)
            if r2.random() < 0.25 and not late:
                s2["other_ttl"] = 120  # the new version is advertised with a much shorter TTL than the one it replaces
            # an update follows the previous announcement burst (ends tdone + 0.45 s) by more than one second: the
            # cache-flush bit only retires records received more than 1 s ago (RFC 6762 10.2)
            # (in the late flavour only slow updates: after a fast one both generations stay cached, and hours later
            # the one with the longer TTL is the one left, whichever it is)
            tu = round(tdone + r2.choice([1.6, 2.0, 3.0, 8.0] if late else [0.1, 0.3, 1.6, 2.0, 3.0, 8.0]) +
                       r2.random() * r2.choice([0.1, 1.0]), 6)
            # (some applications keep their ServiceInfo, change it in place and hand it in again)
            ops.append({"t": tu, "op": "update", "h": h, "svc": s2, "mutate": r2.random() < 0.35})
            if r2.random() < 0.35 and not late:
                # ... and back to the first version shortly afterwards (a state that flips: on, off, on)
                ops.append({"t": round(tu + r2.choice([0.3, 0.8, 1.5, 3.0]), 6), "op": "update", "h": h, "svc": dict(s)})
    # late flavour: nobody browses while the services come and go; much later - when the pointers the hosts cached from
    # the announcements are fresh, past half of their TTL, or expired and purged - browsers start and have to report
    # exactly what is registered then (from their cache, or from the answers to their own start-up queries)
    nb = 0 if late else r2.choice([1, 2, 3, 4])
    for i in range(nb):
        h = r2.choice(hosts)
        ops.append({"t": round(r2.choice([0.01, 0.3, 1.0, 4.0, 9.0, 15.0]) + r2.random() * 0.3, 6), "op": "browse", "h": h,
                    "id": f"b{i}", "types": r2.sample(types, r2.choice([1, min(2, ntypes)])),
                    "lookup_on_add": 3000 if r2.random() < 0.5 else None})
        if r2.random() < 0.15:
            ops.append({"t": round(r2.choice([5.0, 10.0, 16.0]) + r2.random(), 6), "op": "cancel", "h": h, "id": f"b{i}"})
    if nh >= 3 and r2.random() < 0.25:
        h = r2.choice(hosts[1:])
        tk = round(r2.choice([3.0, 8.0, 14.0]) + r2.random(), 6)
        if r2.random() < 0.5:
            # (some applications withdraw everything through async_unregister_all_services and keep the instance)
            ops.append({"t": tk, "op": "close" if fixed or r2.random() < 0.6 else "unregister_all", "h": h})
        else:
            ops.append({"t": tk, "op": "crash", "h": h})
            if r2.random() < 0.5:
                ops.append({"t": round(tk + r2.choice([0.5, 3.0]), 6), "op": "restart", "h": h})
    # no partitions: a partition that covers a change loses every copy of it, which is beyond the single-loss fault
    # model the property states (convergence would then legitimately wait for TTL expiry)
    for o in ops:
        if o["op"] != "host" and "h" in o and t_up[o["h"]] > 0:
            o["t"] = round(t_up[o["h"]] + 0.01 + o["t"], 6)  # shifted as a block: the order of this host's ops is kept
    if late:
        t_last = max(o["t"] for o in ops) + 1.0
        # (offsets keep clear of the ten seconds between the expiry of a cached pointer and its purge for every TTL in
        # use - 1125 s floor, 1200, 2000, 4500, 9000 - whatever instant within the first minute it was received at:
        # C04 excludes browsers created in that state, and so does this generator)
        off = r2.choice([30.0, 300.0, 620.0, 1050.0, 2300.0, 3000.0, 4400.0])
        for i in range(r2.choice([1, 2])):
            ops.append({"t": round(t_last + off + i * r2.choice([0.0, 0.5, 3.0]), 6), "op": "browse", "h": r2.choice(hosts),
                        "id": f"late{i}", "types": r2.sample(types, r2.choice([1, min(2, ntypes)])),
                        "lookup_on_add": 3000 if r2.random() < 0.5 else None})
    ops.sort(key=lambda o: o["t"])
    # nothing is asked of an instance once its close() has been called
    closing = {o["h"]: o["t"] for o in ops if o["op"] == "close"}
    ops = [o for o in ops if o["op"] == "close" or o.get("h") not in closing or o["t"] < closing[o["h"]]]
    faults = {"max_delay_us": rng.choice([0, 10000, 100000, 100000]), "loop_delay_us": rng.choice([0, 500, 1000]),
              "dup_p": rng.choice([0.0, 0.05, 0.2])}
    drop = None
    if fixed:
        drop = [rng.randrange(0, 140), rng.choice([None, None] + hosts)]
    elif rng.random() < 0.8:
        drop = [rng.randrange(0, 120), rng.choice([None, None] + hosts)]
    return {"timer_slop_us": rng.choice([0, 0, 1, 50, 300]), "ops": ops, "faults": faults, "drop": drop, "fixed": fixed, "hosts": hosts}


def shrink_extra(sc):
    if sc.get("drop"):
        t = dict(sc)
        t["drop"] = None
        yield t
    if sc.get("drop_after"):
        t = dict(sc)
        t["drop_after"] = None
        yield t


def execute(scenario, seed, overrides=None):
    out = runner.Outcome()
    w = World(seed, FaultConfig(**scenario.get("faults", {})), overrides, step_cap=3_000_000,
              timer_slop=scenario.get("timer_slop_us", 0) / 1e6)
    stats = {"hosts": 0, "browsers_judged": 0, "instances_expected": 0, "lookups_judged": 0, "forced_drop_fired": 0,
             "crashes": 0, "closes": 0, "partitions": 0, "updates": 0, "unregisters": 0, "fixed_scenario": int(scenario.get("fixed", False))}
    try:
        drv = Driver(w, scenario)
        if scenario.get("drop"):
            w.net.drop_tx = (scenario["drop"][0], scenario["drop"][1])
        if scenario.get("drop_after"):
            w.net.drop_after = tuple(scenario["drop_after"])
        last_op = max([o["t"] for o in scenario["ops"]] + [0.0])
        part_end = max([o["t"] + o["dur"] for o in scenario["ops"] if o["op"] == "partition"] + [0.0])
        # everything that counts as a change has happened by: last op + registration/goodbye durations
        t_quiet = max(last_op + 0.9, part_end)
        t_end = t_quiet + SETTLE

        trig = [(i, o) for i, o in enumerate(scenario["ops"]) if o.get("after_ucast") is not None]
        if trig:
            fired = set()

            def run_trig(i, o):
                if i in fired:
                    return
                fired.add(i)
                if scenario.get("drop_after") and scenario["drop_after"][0] == o["h"]:
                    w.net.drop_after = (o["h"], w.now - w.t0, scenario["drop_after"][2], scenario["drop_after"][3])
                orig_run(i, o)

            def on_tx(tx):
                for i, o in trig:
                    if (i not in fired and tx.host == o["h"] and not tx.multicast and tx.msg is not None
                            and tx.msg.is_response and tx.dst[0] != tx.src[0] and tx.t - w.t0 >= o["t"] - 0.46):
                        w.loop.call_at(w.now + o["after_ucast"], run_trig, i, o)

            w.net.on_tx = on_tx
            orig_run = drv._run_op

            def _run_op(i, o):
                # (at the time the scenario names: the latest instant for the op)
                if o.get("after_ucast") is not None:
                    return run_trig(i, o)
                return orig_run(i, o)

            drv._run_op = _run_op

        async def main():
            drv.schedule_all()
            await w.sleep_until(t_end)
            # wait for lookups in flight (they started from add_service callbacks)
            await w.sleep_until(t_end + 3.2)

        w.run(main())
        _oracle(w, drv, scenario, w.t0 + t_end, stats, out)
        for e in w.loop.exceptions:
            out.add("C07.loop-exception", f"exception reached the loop handler: {e}")
            break
        out.digest = w.digest()
        out.interleaving = w.interleaving_digest()
        out.sim_seconds = w.now - w.t0
        out.decisions = w.dec.recorded
        out.stats.update({f"fault_{k}": v for k, v in w.net.fault_counts.items()})
        stats["forced_drop_fired"] = w.net.fault_counts.get("forced_drop", 0)
        out.stats.update(stats)
        out.nontrivial = len(w.hosts) >= 2 and stats["browsers_judged"] >= 1 and any(
            e["op"] == "register" and e["exc"] is None for e in w.api_log)
        out.sample = {"hosts": scenario["hosts"], "drop": scenario.get("drop"), "ops": [o for o in scenario["ops"] if o["op"] != "host"][:8],
                      "stats": {k: v for k, v in stats.items() if v}}
    finally:
        w.teardown()
    return out


def _oracle(w, drv, sc, t_end, stats, out):
    t0 = w.t0
    stats["hosts"] = len(w.hosts)
    # registry timeline from the API log
    events = []
    t_close = {e["host"]: e["t_call"] for e in w.api_log if e["op"] == "close"}
    for e in w.api_log:
        if e["op"] != "close" and e["host"] in t_close and e["t_call"] >= t_close[e["host"]]:
            return  # an API call raced with close() of the same instance: outside what is generated (shrink artefact)
        if e["op"] == "register" and e["exc"] is None and e["t_done"] is not None:
            events.append((e["t_done"], "reg", e["host"], e["svc"]))
        elif e["op"] == "update" and e["exc"] is None:
            events.append((e["t_call"], "upd", e["host"], e["svc"]))
            stats["updates"] += 1
        elif e["op"] == "unregister":
            events.append((e["t_call"], "unreg", e["host"], e["args"]))
            stats["unregisters"] += 1
        elif e["op"] == "close":
            events.append((e["t_call"], "close", e["host"], None))
            stats["closes"] += 1
        elif e["op"] == "unregister_all":
            events.append((e["t_call"], "unreg_all", e["host"], None))
            stats["unregisters"] += 1
    for rec in w.events:
        if rec[1] == "host-crash":
            events.append((float(rec[0]), "crash", rec[2], None))
            stats["crashes"] += 1
    events.sort(key=lambda x: x[0])
    reg = {}  # name.lower() -> (host, [versions (t, svc)])
    dontcare = set()
    dead = set()
    closed = set()
    history = {}  # name.lower() -> list of (t_from, t_to, svc)
    crashed = set()
    unreg_at = {}
    for rec in w.events:
        if rec[1] == "host-start" and rec[4] > 0:
            events.append((float(rec[0]), "restart", rec[2], None))
    events.sort(key=lambda x: x[0])
    for t, kind, host, arg in events:
        if kind == "restart":
            crashed.discard(host)
            continue
        if kind in ("reg", "upd"):
            if host in closed or host in crashed:
                continue
            n = arg["name"].lower()
            # update of a name that is not registered registers it (async_update_service adds and announces)
            if n in reg:
                history[n][-1][1] = t
            reg[n] = host
            history.setdefault(n, []).append([t, None, arg])
            dontcare.discard(n)
        elif kind == "unreg":
            n = arg.lower()
            if reg.get(n) == host:
                del reg[n]
                history[n][-1][1] = t
                unreg_at[n] = (t, host)
        elif kind in ("close", "unreg_all"):
            if kind == "close":
                closed.add(host)
            for n in [n for n, h in reg.items() if h == host]:
                del reg[n]
                history[n][-1][1] = t
        elif kind == "crash":
            crashed.add(host)
            # a service whose goodbyes (three, over 250 ms) were still going out when the process died was not withdrawn
            # any more than the ones that were registered: no goodbye may have left at all
            for n, (tu, hu) in unreg_at.items():
                if hu == host and t - tu < 0.3 and n not in reg:
                    history[n][-1].append("crashed")
                    dontcare.add(n)
            for n in [n for n, h in reg.items() if h == host]:
                del reg[n]
                history[n][-1][1] = t
                history[n][-1].append("crashed")
                dontcare.add(n)
    stats["partitions"] = sum(1 for o in sc["ops"] if o["op"] == "partition")
    # once an update has taken effect the owner no longer advertises the replaced version: a superseded SRV/TXT with a
    # positive TTL sent afterwards keeps two generations alive in every cache on the link
    from sim.svc import SvcRecords as _SRx

    for n, hist in history.items():
        for k in range(len(hist) - 1):
            old_v, new_v = hist[k], hist[k + 1]
            if old_v[1] is None or abs(new_v[0] - old_v[1]) > 1e-9:
                continue
            ro, rn = _SRx(old_v[2]), _SRx(new_v[2])
            stale = {r.ident() for r in (ro.srv, ro.txt)} - {r.ident() for r in (rn.srv, rn.txt)}
            # ... and the replaced addresses, unless another service of that host name has them as well
            others = {a.ident() for n2, h2 in history.items() if n2 != n for v2 in h2
                      for a in _SRx(v2[2]).addrs if _SRx(v2[2]).server.lower() == ro.server.lower()}
            stale |= {a.ident() for a in ro.addrs} - {a.ident() for a in rn.addrs} - others
            if not stale:
                continue
            owner = reg_host(history, n)
            for tx in w.net.trace:
                if tx.host != owner or tx.t <= old_v[1] + 1e-9 or tx.msg is None or not tx.msg.is_response:
                    continue
                if new_v[1] is not None and tx.t >= new_v[1]:
                    break
                bad = [r for r in tx.msg.records() if r.ttl > 0 and r.ident() in stale]
                if bad:
                    out.add("C07.superseded-version-advertised", f"{n}: updated at {old_v[1] - t0:.3f} but {owner} sent the "
                            f"replaced {bad[0]!r} at {tx.t - t0:.3f}")
                    break
    # browsers
    for (hn, bid), lst in drv.listeners.items():
        host = w.hosts.get(hn)
        if host is None or not host.alive or hn in closed or lst.cancelled is not None:
            continue
        if bid not in host.browsers:
            continue  # belonged to an instance that crashed (a restarted host has a new, empty instance)
        live = {}
        bad_alt = None
        for (t, kind, ty, name) in lst.events:
            if t > t_end:
                break
            key = (ty.lower(), name.lower())
            if kind == "add":
                if key in live and bad_alt is None:
                    bad_alt = (t, "add", name)
                live[key] = name
            elif kind == "remove":
                if key not in live and bad_alt is None:
                    bad_alt = (t, "remove", name)
                live.pop(key, None)
        types = [x.lower() for x in lst.types]
        expected = {(svc_type(history[n][-1][2]), n) for n in reg if svc_type(history[n][-1][2]) in types}
        got = set(live)
        stats["browsers_judged"] += 1
        stats["instances_expected"] += len(expected)
        missing = sorted(x for x in expected - got)
        extra = sorted(x for x in got - expected if x[1] not in dontcare)
        if missing:
            out.add("C07.not-discovered", f"browser {bid} on {hn} (types {types}, started {lst.started - t0:.3f}): "
                    f"{[m[1] for m in missing]} registered but not reported Added {SETTLE} s after the last change "
                    f"(checked at {t_end - t0:.3f}); events: {[(round(t - t0, 3), k, n) for t, k, ty, n in lst.events][-6:]}",
                    n=len(missing))
        if extra:
            out.add("C07.stale-service", f"browser {bid} on {hn} (types {types}): {[m[1] for m in extra]} still reported "
                    f"although unregistered/closed, {SETTLE} s after the last change (checked at {t_end - t0:.3f}); events: "
                    f"{[(round(t - t0, 3), k, n) for t, k, ty, n in lst.events][-6:]}", n=len(extra))
        if bad_alt:
            out.add("C07.alternation", f"browser {bid} on {hn}: {bad_alt[1]} for {bad_alt[2]} at {bad_alt[0] - t0:.3f} breaks "
                    "the Added/Removed alternation")
    # lookups from add_service
    for lk in drv.lookups:
        e = lk["entry"]
        if e["t_done"] is None or lk["origin"] is None:
            continue
        n = lk["name"].lower()
        t_a, t_b = lk["t_start"], e["t_done"]
        # a version replaced less than 1.5 s before the lookup started may still be the advertised one at this host
        # (link delay plus the one-second grace of cache-flush)
        vers = [v for v in history.get(n, []) if v[0] <= t_b and (v[1] is None or v[1] >= t_a - 1.5)]
        # RFC 6762 10.2: a cache-flush record retires only copies received more than 1 s earlier, so after a quick update
        # both generations of SRV/TXT can stay cached at the receiver until the old TTL runs out. The generation that
        # was received last is the advertised one - all announcements of the update have arrived 1.5 s after it - and
        # that is the one a lookup has to resolve; older addresses of the host may still be listed (host_addrs below).
        # registered (in some version) without a gap for the whole lookup window?
        cover = t_a
        whole = False
        for v in sorted(history.get(n, []), key=lambda v: v[0]):
            if v[0] <= cover + 1e-9 and (v[1] is None or v[1] > cover or (v[1] >= cover and t_a == t_b)):
                cover = float("inf") if v[1] is None else v[1]
                if cover >= t_b:
                    whole = True
                    break
        if history.get(n) and history[n][0][0] > t_a:
            whole = False
        host = w.hosts.get(lk["host"])
        if host is None or not host.alive or lk["host"] in closed or not whole:
            continue
        stats["lookups_judged"] += 1
        info = lk["info"]
        if not e["result"]:
            out.add("C07.lookup-failed", f"lookup of {lk['name']} from add_service on {lk['host']} at {t_a - t0:.3f} returned "
                    f"False after {t_b - t_a:.3f} s although the service stayed registered")
            continue
        got = (info.port, (info.server or "").lower(), info.text, frozenset(info.addresses_by_version(IPVersion.All)))
        ok = False
        from sim.svc import SvcRecords

        for v in vers:
            r = SvcRecords(v[2])
            # every registered service naming the same host contributes address records of that host
            host_addrs = set()
            for n2, hist2 in history.items():
                for v2 in hist2:
                    r2 = SvcRecords(v2[2])
                    # (an address that an update took away is withdrawn with the update's announcements: it may be
                    # listed for the 1.5 s it takes them to arrive, not for the rest of its TTL - third audit, D61)
                    # (what a crashed host advertised is never withdrawn: it stays until its TTL is over)
                    grace = 120.0 if len(v2) > 3 else 1.5
                    if r2.server.lower() == r.server.lower() and v2[0] <= t_b and (v2[1] is None or v2[1] >= t_a - grace):
                        host_addrs |= {a.rdata for a in r2.addrs}
            own = {a.rdata for a in r.addrs}
            # cache-first lookups return the address records of that host cached at that instant (address records
            # belong to the host name, which several services may share): non-empty, and none that no registered
            # service of that host advertises
            addr_ok = bool(got[3]) and got[3] <= host_addrs
            if got[0] == r.srv.rdata[2] and got[1] == r.server.lower() and got[2] == r.txt.rdata and addr_ok:
                ok = True
            # a lookup that straddles an update may see a mixture of two registered versions
            if len(vers) > 1 and got[1] == r.server.lower() and addr_ok:
                ok = True
        if not ok:
            out.add("C07.lookup-wrong", f"lookup of {lk['name']} on {lk['host']} resolved {got}, registered versions in that "
                    f"window: {[(SvcRecords(v[2]).srv.rdata, SvcRecords(v[2]).txt.rdata, v[2]['addrs']) for v in vers]}")


def reg_host(history, n):
    return "H" + history[n][-1][2]["server"].split(".")[0].replace("host", "")


def svc_type(svc):
    return svc["type"].lower()


if __name__ == "__main__":
    import checks.c07 as me

    sys.exit(runner.main(me))
