"""Shared engine of C04/C05/C06: response histories driven through the real listener of one host.

One real host B, one scripted peer P that multicasts response datagrams built by the independent
encoder.  A per-socket model of the duplicate guard decides which deliveries count, ModelCache is
fed with exactly those, and after every delivery / purge / quiescent point the real cache, the
probe listeners and the browser callbacks are compared with the model.
"""
from sim import wire
from sim.driver import Driver
from sim.models import GuardSet, ModelCache, lib_ident
from sim.net import FaultConfig
from sim.world import World, zeroconf

from zeroconf import RecordUpdateListener

HOST_OFFSET = 5e-7  # host start is shifted by half a microsecond: purge instants never tie with traffic

TYPE = "_http._tcp.local."
TYPE2 = "_ipp._tcp.local."
INST = ["Inst1._http._tcp.local.", "Inst2._http._tcp.local.", "Inst3._http._tcp.local.",
        "PrnA._ipp._tcp.local.", "PrnB._ipp._tcp.local."]
HOSTS = ["hosta.local.", "hostb.local."]
TTLS = [0, 1, 2, 60, 120, 1124, 1125, 1200, 4500]


def vocab_records():
    """(name, type, [rdata variants]) of the record vocabulary."""
    v = []
    for h, n in zip(HOSTS, (1, 2)):
        v.append((h, wire.T_A, [wire.ip4(f"10.0.{n}.1"), wire.ip4(f"10.0.{n}.2")]))
        v.append((h, wire.T_AAAA, [wire.ip6(f"fe80::{n}:1"), wire.ip6(f"fe80::{n}:2")]))
        v.append((h, wire.T_HINFO, [(b"cpu", b"os"), (b"c2", b"o2")]))
    v.append((TYPE, wire.T_PTR, INST[:3]))
    v.append((TYPE2, wire.T_PTR, INST[3:]))
    for i in INST[:2] + INST[3:4]:
        v.append((i, wire.T_SRV, [(0, 0, 80, HOSTS[0]), (0, 0, 81, HOSTS[1]), (1, 0, 80, HOSTS[0])]))
        v.append((i, wire.T_TXT, [b"\x03a=1", b"\x03a=2", b""]))
        v.append((i, wire.T_NSEC, [(i, [wire.T_AAAA]), (i, [wire.T_A])]))
    return v


ALL_NAMES = sorted({n for n, _, _ in vocab_records()})


def recase(rng, name):
    k = rng.random()
    if k < 0.5:
        return name.upper()
    return "".join(c.upper() if rng.random() < 0.5 else c.lower() for c in name)


def gen_record(rng, voc, opts):
    name, type_, variants = rng.choice(voc)
    rd = rng.choice(variants)
    ttl = rng.choice(opts.get("ttls", TTLS))
    flush = rng.random() < opts.get("flush_p", 0.3)
    if type_ == wire.T_PTR:
        flush = rng.random() < opts.get("ptr_flush_p", 0.05)
        if opts.get("case_alias") and rng.random() < 0.15:
            rd = recase(rng, rd)
        if opts.get("case_owner") and rng.random() < 0.1:
            name = recase(rng, name)
    elif opts.get("case_names") and rng.random() < 0.15:
        name = recase(rng, name)
    if type_ == wire.T_SRV and opts.get("case_names") and rng.random() < 0.1:
        rd = (rd[0], rd[1], rd[2], rd[3].upper())
    return wire.RR(name, type_, ttl, rd, flush)


def gen_datagram(rng, voc, opts):
    n = rng.choice(opts.get("sizes", [1, 1, 2, 2, 3, 4]))
    recs = [gen_record(rng, voc, opts) for _ in range(n)]
    if recs and rng.random() < opts.get("repeat_p", 0.25):
        r = rng.choice(recs)
        ttl = r.ttl if rng.random() < 0.5 else rng.choice(opts.get("ttls", TTLS))
        recs.insert(rng.randrange(len(recs) + 1), wire.RR(r.name, r.type, ttl, r.rdata, r.flush))
    if opts.get("no_case_twins"):
        seen = {}
        out = []
        for r in recs:
            key = (r.name.lower(), r.rdata.lower() if isinstance(r.rdata, str) else None)
            sp = (r.name, r.rdata if isinstance(r.rdata, str) else None)
            if key in seen and seen[key] != sp:
                continue
            seen[key] = sp
            out.append(r)
        recs = out
    k = rng.random()
    if k < 0.7:
        secs = {"an": recs}
    elif k < 0.85:
        cut = rng.randrange(len(recs) + 1)
        secs = {"an": recs[:cut], "ar": recs[cut:]}
    else:
        cut = rng.randrange(len(recs) + 1)
        secs = {"an": recs[:cut], "ns": recs[cut:]}
    m = {"qr": 1}
    for k2, lst in secs.items():
        m[k2] = [r.to_json() for r in lst]
    return m


def gen_step(rng, last_ttls):
    k = rng.random()
    if k < 0.3:
        return rng.choice([0.0, 0.000001, 0.001, 0.5, 0.999, 1.0, 1.001, 1.5])
    if k < 0.5 and last_ttls:
        ttl = rng.choice(last_ttls)
        return max(0.0, ttl + rng.choice([-0.001, 0.0, 0.001, -1.0, 1.0]))
    if k < 0.65:
        return rng.choice([9.999, 10.0, 10.001, 20.0])
    if k < 0.8:
        return rng.random() * 3.0
    if k < 0.95:
        return rng.random() * 200.0
    return rng.choice([600.0, 1125.0, 1200.0, 3375.0, 4499.0, 4500.0, 4501.0, 7200.0])


class Probe(RecordUpdateListener):
    def __init__(self, harness, pid, script=None):
        self.h = harness
        self.pid = pid
        self.script = script or {}  # n-th update call -> ("add"|"remove", other pid)
        self.calls = []  # ("upd", pairs, snapshot, now) / ("done", snapshot)
        self.nupd = 0

    def async_update_records(self, zc, now, records):
        pairs = []
        purge = True
        for ru in records:
            pairs.append((lib_ident(ru.new), ru.old is not None, ru.new is ru.old))
            if ru.new is not ru.old:
                purge = False
        self.calls.append(("upd", pairs, self.h.snapshot(), now, purge))
        self.h.w.log("probe", self.pid, "upd", len(pairs))
        if purge and not self.h.in_delivery:
            self.h.on_purge_report(self, now, [p[0] for p in pairs])
        act = self.script.get(str(self.nupd))
        self.nupd += 1
        if act:
            self.h.probe_action(act[0], act[1], from_callback=True, again=len(act) > 2 and bool(act[2]))

    def async_update_records_complete(self):
        self.calls.append(("done", self.h.snapshot()))
        self.h.w.log("probe", self.pid, "done")


class Harness:
    def __init__(self, scenario, seed, overrides, out, check_paths=True, check_listeners=True, check_browsers=True):
        self.sc = scenario
        self.out = out
        self.w = World(seed, FaultConfig(**scenario.get("faults", {})), overrides)
        self.drv = Driver(self.w, scenario)
        self.drv.hooks.update({"probe": self.op_probe, "vbrowse": self.op_vbrowse})
        self.model = None
        self.guards = GuardSet()
        self.probes = {}  # pid -> Probe (registered)
        self.all_probes = {}
        self.in_delivery = False
        self.cur = None
        self.check_paths = check_paths
        self.check_listeners = check_listeners
        self.check_browsers = check_browsers
        self.stats = {"datagrams": 0, "suppressed": 0, "invalid": 0, "purges": 0, "purged_records": 0,
                      "flush_marks": 0, "goodbyes": 0, "refreshes": 0, "repeated_in_datagram": 0,
                      "ambiguous_zero_and_positive": 0, "expired_unpurged_seen": 0, "quiescent_checks": 0,
                      "browser_skipped_expired_ptr": 0, "adds": 0, "removes": 0, "probe_mid_datagram_changes": 0}
        self.purge_reports = []
        self.alts = {}
        self.mid_changes = set()
        self._last_gone = set()
        self.bstate = {}  # (bid) -> {"live": {type: set(lower names)}, "seq": {(type, lower): last kind}}
        self.w.net.on_rx = self.on_rx
        self.w.on_callback = self.on_browser_callback
        self.host = None

    # ------------------------------------------------------------ running
    def run(self):
        w = self.w

        async def main():
            await w.sleep_until(HOST_OFFSET)
            self.host = w.add_host("B", "10.0.0.2", layout=self.sc.get("layout", "default"))
            self.model = ModelCache(w.now)
            w.add_peer("P", "10.0.0.9")
            self.probe_action("add", "obs")
            self.drv.schedule_all()
            w.loop.after_step = None
            await w.sleep_until(self.sc["end"])
            self.quiescent_check("end")

        def after_rx(rsock):
            if rsock.owner.name == "B":
                self.in_delivery = False
                self.after_delivery()

        w.net.after_rx = after_rx
        try:
            w.run(main())
            out = self.out
            if w.loop.exceptions:
                out.add("loop-exception", f"exception reached the loop handler: {w.loop.exceptions[0]}")
            out.digest = w.digest()
            # these properties quantify over histories: two runs are the same case only when the whole event log
            # (datagram contents, delivery instants, callbacks) is the same
            out.interleaving = w.digest()[:16]
            out.sim_seconds = w.now - w.t0
            out.decisions = w.dec.recorded
            out.stats.update({f"fault_{k}": v for k, v in w.net.fault_counts.items()})
            out.stats.update(self.stats)
            out.nontrivial = self.stats["datagrams"] >= 2
        finally:
            w.teardown()

    # ------------------------------------------------------------ snapshots
    def snapshot(self):
        cache = self.host.zc.cache
        snap = {}
        for name in cache.names():
            for rec in cache.entries_with_name(name):
                snap[lib_ident(rec)] = (rec.created, rec.ttl)
        return snap

    # ------------------------------------------------------------ delivery hooks
    def on_rx(self, t, rsock, data, addr, tx_idx, copy):
        if rsock.owner.name != "B":
            return
        t_ms = t * 1000.0
        self.model.advance(t)
        self.in_delivery = True
        self.cur = None
        if len(data) > wire.MAX_ABS:
            return
        if not self.guards.check(rsock.label, data, t_ms, addr):
            self.stats["suppressed"] += 1
            return
        msg = wire.try_decode(data)
        self.guards.accept(rsock.label, data, t_ms, bool(msg and any(q.qu for q in msg.questions)), addr)
        if msg is None:
            self.stats["invalid"] += 1
            self.cur = ("invalid", None)
            return
        if not msg.is_response:
            return
        recs = msg.records()
        idents = [r.ident() for r in recs]
        if len(set(idents)) < len(idents):
            self.stats["repeated_in_datagram"] += 1
        # a new identity listed more than once with different TTLs: either copy's TTL is "the received TTL"
        alts = {}
        for r in recs:
            if r.ident() not in self.model.e and self.model.eff_ttl(r) > 0:
                alts.setdefault(r.ident(), set()).add(self.model.eff_ttl(r))
        eff = self.model.apply_response(t_ms, recs)
        for i, s in alts.items():
            if len(s) > 1 and i in self.model.e:
                self.alts[i] = (t_ms, s)
        self.stats["datagrams"] += 1
        self.stats["flush_marks"] += len(eff.flushed)
        self.stats["goodbyes"] += len(eff.removed)
        self.stats["refreshes"] += len(eff.refreshed)
        if eff.ambiguous:
            self.stats["ambiguous_zero_and_positive"] += 1
        for p in self.all_probes.values():
            p.calls = []
        self.cur = ("resp", eff, dict(self.probes), t_ms)
        self.mid_changes = set()

    def _adopt_alts(self, snap):
        for i, (t_ms, ttls) in list(self.alts.items()):
            e = self.model.e.get(i)
            if e is None or e.created != t_ms:
                del self.alts[i]
                continue
            got = snap.get(i)
            if got is not None and got[0] == t_ms and got[1] in ttls:
                e.ttl = got[1]

    def after_delivery(self):
        cur, self.cur = self.cur, None
        if cur is None or cur[0] != "resp":
            return
        _, eff, probes_before, t_ms = cur
        out = self.out
        snap = self.snapshot()
        self._adopt_alts(snap)
        if self.check_listeners:
            for pid, p in probes_before.items():
                whole = pid in self.probes and pid not in self.mid_changes
                calls = p.calls
                kinds = [c[0] for c in calls]
                if not eff.pairs:
                    if calls:
                        out.add("C06.callback-without-update", f"probe {pid} called {kinds} for a datagram without updates")
                    continue
                if whole:
                    if kinds != ["upd", "done"]:
                        out.add("C06.exactly-once", f"probe {pid} saw calls {kinds} for one datagram at "
                                f"{self.w.rel():.6f}, expected exactly one update call then one completion call",
                                kinds="".join(k[0] for k in kinds))
                        continue
                else:
                    if kinds.count("upd") > 1 or kinds.count("done") > 1:
                        out.add("C06.at-most-once", f"probe {pid} (added/removed mid-datagram) saw {kinds}")
                    continue
                upd, done = calls[0], calls[1]
                got_pairs = [(i, had) for i, had, same in upd[1]]
                if got_pairs != eff.pairs:
                    out.add("C06.pairs", f"update pairs at {self.w.rel():.6f}: got {got_pairs[:6]} expected {eff.pairs[:6]}")
                if upd[3] != t_ms:
                    out.add("C06.now", f"listener 'now' {upd[3]} != arrival time {t_ms}")
                first = dict(eff.first)
                after = dict(eff.after)
                for i, (tm, ttls) in self.alts.items():
                    if i in after and i in done[1] and done[1][i][1] in ttls:
                        after[i] = done[1][i]
                if upd[2] != first:
                    out.add("C06.first-call-state", "cache seen inside async_update_records differs from "
                            f"old-state+refresh+flush at {self.w.rel():.6f}: {_diff(upd[2], first)}")
                if done[1] != after:
                    out.add("C06.second-call-state", "cache seen inside async_update_records_complete differs from "
                            f"the new state at {self.w.rel():.6f}: {_diff(done[1], after)}")
            for pid, p in self.all_probes.items():
                if pid not in probes_before and pid not in self.probes and pid not in self.mid_changes and p.calls:
                    out.add("C06.called-while-unregistered", f"probe {pid} is not registered (it was removed) and was "
                            f"called {[c[0] for c in p.calls]} for the datagram at {self.w.rel():.6f}")
        self.compare_cache(f"after datagram at {self.w.rel():.6f}")
        if self.check_browsers:
            self.check_browser_sets(f"after datagram at {self.w.rel():.6f}")

    # ------------------------------------------------------------ purge
    def on_purge_report(self, probe, now_ms, idents):
        self.model_purge_expect = None
        t = now_ms / 1000.0
        before = set(self.model.e)
        self.model.advance(self.w.now)
        gone = before - set(self.model.e)
        first_probe = not self.purge_reports or self.purge_reports[-1][0] != now_ms
        if first_probe:
            self.purge_reports.append((now_ms, idents))
            self.stats["purges"] += 1
            self.stats["purged_records"] += len(idents)
            self._last_gone = gone
            self.w.loop.call_soon(self.quiescent_check, f"after purge at {self.w.rel():.6f}")
        exp = self._last_gone
        if sorted(idents) != sorted(exp) or len(idents) != len(set(idents)):
            self.out.add("C05.purge-set", f"purge at {self.w.rel():.6f} reported {sorted(idents)[:4]} "
                         f"expected exactly {sorted(exp)[:4]}")

    # ------------------------------------------------------------ comparisons
    def compare_cache(self, where):
        """All lookup paths against the model (C05)."""
        self.model.advance(self.w.now)
        zc = self.host.zc
        cache = zc.cache
        model = self.model
        out = self.out
        self.stats["quiescent_checks"] += 1
        snap = self.snapshot()
        self._adopt_alts(snap)
        want = {i: (e.created, e.ttl) for i, e in model.e.items()}
        now_ms = self.w.now_ms
        if any(e.expired(now_ms) for e in model.e.values()):
            self.stats["expired_unpurged_seen"] += 1
        if snap != want:
            out.add("C05.entries_with_name", f"{where}: entries_with_name view differs from model: {_diff(snap, want)}")
            return
        if not self.check_paths:
            return
        if set(cache.names()) != model.names():
            out.add("C05.names", f"{where}: names() {sorted(cache.names())} != {sorted(model.names())}")
        from zeroconf import DNSAddress, DNSHinfo, DNSNsec, DNSPointer, DNSService, DNSText

        for ident, e in model.e.items():
            name, t, c, rd = ident
            if t in (wire.T_A, wire.T_AAAA):
                probe = DNSAddress(name, t, c, 1, rd)
            elif t == wire.T_PTR:
                probe = DNSPointer(name, t, c, 1, rd)
            elif t == wire.T_TXT:
                probe = DNSText(name, t, c, 1, rd)
            elif t == wire.T_SRV:
                probe = DNSService(name, t, c, 1, rd[0], rd[1], rd[2], rd[3])
            elif t == wire.T_HINFO:
                probe = DNSHinfo(name, t, c, 1, rd[0].decode(), rd[1].decode())
            elif t == wire.T_NSEC:
                probe = DNSNsec(name, t, c, 1, rd[0], list(rd[1]))
            else:
                continue
            st = (e.created, e.ttl)
            got = cache.get(probe)
            if got is None or lib_ident(got) != ident or (got.created, got.ttl) != st:
                out.add("C05.get", f"{where}: get({ident}) -> {got!r} with {(got.created, got.ttl) if got else None}, "
                        f"model {st}")
            if t != wire.T_NSEC:
                got = cache.async_get_unique(probe)
                if got is None or lib_ident(got) != ident or (got.created, got.ttl) != st:
                    out.add("C05.async_get_unique", f"{where}: async_get_unique({ident}) -> "
                            f"{(got.created, got.ttl) if got else None}, model {st}")
        groups = {}
        for ident, e in model.e.items():
            groups.setdefault(ident[:3], {})[ident] = (e.created, e.ttl)
        for name in ALL_NAMES:
            for t in (wire.T_A, wire.T_AAAA, wire.T_PTR, wire.T_SRV, wire.T_TXT, wire.T_HINFO, wire.T_NSEC):
                wantg = groups.get((name.lower(), t, wire.C_IN), {})
                for variant in (name, name.upper()):
                    allg = {lib_ident(r): (r.created, r.ttl) for r in cache.get_all_by_details(variant, t, wire.C_IN)}
                    if allg != wantg:
                        out.add("C05.get_all_by_details", f"{where}: get_all_by_details({variant},{t}) "
                                f"{_diff(allg, wantg)}")
                    one = cache.get_by_details(variant, t, wire.C_IN)
                    if (one is None) != (not wantg) or (one is not None and wantg.get(lib_ident(one)) !=
                                                        (one.created, one.ttl)):
                        out.add("C05.get_by_details", f"{where}: get_by_details({variant},{t}) -> {one!r}, "
                                f"model {wantg}")
        for h in HOSTS:
            wants = {i: (e.created, e.ttl) for i, e in model.by_server(h).items()}
            for variant in (h, h.upper()):
                gots = {lib_ident(r): (r.created, r.ttl) for r in cache.entries_with_server(variant)}
                if gots != wants:
                    out.add("C05.entries_with_server", f"{where}: entries_with_server({variant}) {_diff(gots, wants)}")

    # ------------------------------------------------------------ probes
    def op_probe(self, op):
        self.probe_action(op["act"], op["id"], script=op.get("script"), again=bool(op.get("again")))

    def probe_action(self, act, pid, script=None, from_callback=False, again=False):
        zc = self.host.zc
        if act == "add":
            if pid in self.probes:
                if again:
                    # registering a listener that is registered already changes nothing: it is one listener
                    zc.async_add_listener(self.probes[pid], None)
                    self.stats["probe_registered_again"] = self.stats.get("probe_registered_again", 0) + 1
                return
            p = self.all_probes.get(pid)
            if p is None:
                p = self.all_probes[pid] = Probe(self, pid, script)
            self.probes[pid] = p
            zc.async_add_listener(p, None)
        else:
            p = self.probes.pop(pid, None)
            if p is None:
                if again and pid in self.all_probes:
                    # the application removes a listener that it has removed already: nothing to do, nothing to raise
                    zc.async_remove_listener(self.all_probes[pid])
                    self.stats["probe_removed_again"] = self.stats.get("probe_removed_again", 0) + 1
                return
            zc.async_remove_listener(p)
        if from_callback or self.in_delivery:
            self.stats["probe_mid_datagram_changes"] += 1
            if hasattr(self, "mid_changes"):
                self.mid_changes.add(pid)

    # ------------------------------------------------------------ browsers (C04)
    def op_vbrowse(self, op):
        """Start a browser unless an expired-but-unpurged PTR of its types is cached (C04's stated exclusion)."""
        self.model.advance(self.w.now)
        now_ms = self.w.now_ms
        for i, e in self.model.e.items():
            if i[1] == wire.T_PTR and e.expired(now_ms) and any(i[0] == t.lower() for t in op["types"]):
                self.stats["browser_skipped_expired_ptr"] += 1
                return None
        self.bstate[op["id"]] = {"types": list(op["types"]), "live": {t: {} for t in op["types"]}, "seq": {},
                                 "active": True}
        self.cur_browse = op["id"]
        lst = self.drv.op_browse(dict(op, op="browse"))
        self.w.loop.call_soon(self.check_browser_sets, f"after browser {op['id']} start at {self.w.rel():.6f}")
        return lst

    def on_browser_callback(self, lst, kind, zc, type_, name):
        st = self.bstate.get(lst.bid)
        if st is None:
            return
        out = self.out
        if kind == "update":
            return
        key = (type_, name.lower())
        last = st["seq"].get(key)
        if kind == "add":
            self.stats["adds"] += 1
            if last == "add":
                out.add("C04.alternation", f"browser {lst.bid}: Added twice in a row for {key} at {self.w.rel():.6f}")
            st["live"].setdefault(type_, {})[name.lower()] = name
            # (iii) a lookup from inside add_service sees the PTR and the datagram's other records
            cache = zc.cache
            ptrs = {r.alias.lower() for r in cache.entries_with_name(type_) if r.type == wire.T_PTR}
            if name.lower() not in ptrs:
                out.add("C04.add-before-cache", f"browser {lst.bid}: add_service({name}) at {self.w.rel():.6f} but the "
                        "PTR is not in the cache yet")
            if self.cur is not None and self.cur[0] == "resp":
                eff = self.cur[1]
                snap = self.snapshot()
                missing = [i for i in eff.after if i not in snap]
                if missing:
                    out.add("C04.add-before-cache", f"browser {lst.bid}: inside add_service({name}) records of the "
                            f"triggering datagram are not cached yet: {missing[:3]}")
        else:
            self.stats["removes"] += 1
            if last != "add":
                out.add("C04.alternation", f"browser {lst.bid}: Removed without preceding Added for {key} at "
                        f"{self.w.rel():.6f} (last={last})")
            st["live"].setdefault(type_, {}).pop(name.lower(), None)
        st["seq"][key] = kind

    def check_browser_sets(self, where):
        zc = self.host.zc
        for bid, st in self.bstate.items():
            if bid not in self.host.browsers:
                continue
            for t in st["types"]:
                cached = {r.alias.lower() for r in zc.cache.entries_with_name(t) if r.type == wire.T_PTR}
                live = set(st["live"].get(t, {}))
                if cached != live:
                    self.out.add("C04.set-equals-cache", f"{where}: browser {bid} type {t}: Added-not-Removed "
                                 f"{sorted(live)} != cached PTR aliases {sorted(cached)}",
                                 extra=len(live - cached), missing=len(cached - live))

    def quiescent_check(self, where):
        self.compare_cache(where)
        if self.check_browsers:
            self.check_browser_sets(where)


def _diff(got, want):
    only_got = {k: got[k] for k in got if k not in want}
    only_want = {k: want[k] for k in want if k not in got}
    differ = {k: (got[k], want[k]) for k in got if k in want and got[k] != want[k]}
    return f"extra={list(only_got.items())[:2]} missing={list(only_want.items())[:2]} differ={list(differ.items())[:2]}"
