"""C04 - browser callbacks alternate add/remove and always match the cache."""
import sys

from checks import cachelib as cl
from sim import runner

PROPERTY = "C04"
LEVEL = "exploration"
QUICK_BUDGET = 25.0
THOROUGH_BUDGET = 900.0
RULE = ("One real instance with 1..3 AsyncServiceBrowsers (1..2 unrelated types each) started before, between and after "
        "traffic and cancelled at arbitrary points; a scripted peer multicasts 2..40 response datagrams over a "
        "vocabulary of PTR new/refresh/goodbye/flush/duplicate/re-cased alias plus SRV/TXT/A/AAAA of the same "
        "instances, TTL 0..4500, with clock steps from 0 to hours (expiry found by the 10 s purge); link delay, "
        "duplication, reordering. Oracles: per (browser, type, instance) Added/Removed alternate; at every quiescent "
        "point Added-not-Removed == cached PTR aliases (case-insensitive); inside add_service the cache already holds "
        "the PTR and the rest of the datagram. The four exclusions of the property are respected by the generator. "
        "Non-trivial = at least two non-suppressed response datagrams and at least one browser callback.")
DISTINCT_RULE = ("Distinct = distinct digests of the full event log (datagram contents, delivery instants, callbacks) "
                 "among non-trivial runs: the property quantifies over histories.")
ASSUMPTIONS = [
    "PTR owner names are spelled exactly as the browsed type; no two names differing only in case inside one datagram; "
    "browsers are not created while an expired-but-unpurged PTR of their types is cached (the property's stated exclusions)",
]


def generate(rng, tier):
    voc = [v for v in cl.vocab_records() if v[1] != 13 and v[1] != 47]
    ptr_heavy = [v for v in voc if v[1] == 12]
    if rng.random() < 0.6:
        voc = ptr_heavy * 3 + rng.sample(voc, 3)
    opts = {"case_alias": True, "case_owner": False, "case_names": False, "no_case_twins": True,
            "flush_p": rng.choice([0.0, 0.3]), "ptr_flush_p": rng.choice([0.0, 0.1, 0.3]),
            "repeat_p": rng.choice([0.0, 0.3]),
            "ttls": rng.choice([cl.TTLS, [0, 1, 2, 1125], [0, 60, 1124, 4500], [0, 0, 1, 4500], [0, 1200, 4500]])}
    n = rng.choice([2, 3, 5, 8, 12, 20, 40] + ([60, 100] if tier == "thorough" else []))
    ops = []
    t = 0.01
    last_ttls = []
    nb = rng.choice([1, 1, 2, 3])
    started = set()
    cancelled = set()
    for k in range(n):
        if rng.random() < (0.6 if not started else 0.15):
            bid = f"b{rng.randrange(nb)}"
            if bid not in started:
                types = rng.choice([[cl.TYPE], [cl.TYPE2], [cl.TYPE, cl.TYPE2]])
                ops.append({"t": round(t, 6), "op": "vbrowse", "h": "B", "id": bid, "types": types,
                            "delay": rng.choice([None, 1000, 60000]),
                            # the listener does what every example does: it looks the service up from inside add_service
                            # with the very (type, name) pair it was handed
                            "lookup_on_add": rng.choice([None, None, 200])})
                started.add(bid)
                t += rng.choice([0.000001, 0.2])
            elif bid not in cancelled and rng.random() < 0.3:
                ops.append({"t": round(t, 6), "op": "cancel", "h": "B", "id": bid})
                cancelled.add(bid)
                t += 0.000001
        m = cl.gen_datagram(rng, voc, opts)
        ops.append({"t": round(t, 6), "op": "send", "p": "P", "msg": m, "compress": rng.random() < 0.7})
        last_ttls = [r[2] for k2 in ("an", "ns", "ar") for r in m.get(k2, []) if r[2] > 0][:3] or last_ttls
        t += cl.gen_step(rng, last_ttls)
    faults = {"max_delay_us": rng.choice([0, 0, 1000, 100000]), "dup_p": rng.choice([0.0, 0.0, 0.2]),
              "b2b_p": rng.choice([0.0, 0.0, 0.2])}
    return {"ops": ops, "faults": faults, "end": round(t + rng.choice([0.5, 11.0, 1200.0, 4600.0]), 6),
            "layout": rng.choice(["default", "multi"])}


def execute(scenario, seed, overrides=None):
    out = runner.Outcome()
    h = cl.Harness(scenario, seed, overrides, out, check_paths=False, check_listeners=False, check_browsers=True)
    h.run()
    out.violations = [v for v in out.violations if not v.clause.startswith("C05.")]
    out.nontrivial = out.nontrivial and (h.stats["adds"] + h.stats["removes"]) > 0
    out.sample = {"ops": scenario["ops"][:4], "end": scenario["end"], "stats": {k: v for k, v in h.stats.items() if v}}
    return out


if __name__ == "__main__":
    import checks.c04 as me

    sys.exit(runner.main(me))
