"""C12 - reply timing: jitter, aggregation, one-second protection, truncated queries."""
import sys

from checks.c03 import ModelRegistry
from sim import runner, wire
from sim.driver import Driver
from sim.models import DupGuard, HostModel, sighting_cause
from sim.net import AF_INET6, FaultConfig
from sim.svc import SvcRecords, gen_services
from sim.world import World

PROPERTY = "C12"
LEVEL = "exploration"
QUICK_BUDGET = 25.0
THOROUGH_BUDGET = 900.0
RULE = ("One real responder with 1..3 services; scripted queriers produce arrival schedules of 1..6 queries with gaps from "
        "the grid {0,1,19,20,21,119,120,121,200,499,500,501,999,1000,1001,1119,1120,1121} ms and random gaps; question "
        "mixes (single SRV/A/AAAA, single PTR, multi-question, probes, legacy source ports); truncated packet trains of "
        "1..4 packets (identical or differing, one or several source addresses, continuation before/at/after the hold "
        "timer) with known answers spread over the packets; the library's jitter draws are seeded, and a sub-batch "
        "forces every draw to its minimum or maximum. Oracle: every multicast answer transmission must lie in the "
        "window of a justifying delivered query (immediate / 20..500 ms / one-second protected), every expected answer "
        "must be transmitted inside its window, no duplicates inside a batch. Non-trivial = at least two queries were "
        "delivered and at least one multicast answer was judged.")
ASSUMPTIONS = [
    "windows carry 1 ms slack; for a truncated train the release instant is the interval [last packet + 400 ms, "
    "last packet + 500 ms] unless a non-truncated packet from the same source releases it earlier",
    "questions with the QU bit from port 5353 are C11's subject: here their multicast answers are allowed at the "
    "release instant and not required",
    "'saw multicast less than one second before' is judged from a reference cache fed with exactly the datagrams the "
    "instance accepted (the library's own notion): sightings swallowed by the duplicate guard, sightings of unicast "
    "copies, cache-flush marks on sibling records and goodbyes move that instant for model and library alike and are "
    "not told apart (DESIGN section 13, 'not yet decided by a check')",
]

EPS = 0.001
GRID = [0.0, 0.001, 0.019, 0.02, 0.021, 0.119, 0.12, 0.121, 0.2, 0.499, 0.5, 0.501, 0.999, 1.0, 1.001, 1.119, 1.12, 1.121]
IMMEDIATE = (wire.T_SRV, wire.T_A, wire.T_AAAA, wire.T_NSEC)


def generate(rng, tier):
    n = rng.choice([1, 2, 3])
    svcs = gen_services(rng, n, types=["_http._tcp.local.", "_ipp._tcp.local."][:rng.choice([1, 2])],
                        hosts=["hostr.local."], custom_ttl=False, v6=rng.random() < 0.3)
    ops = [{"t": 0.0, "op": "host", "h": "R", "ip": "10.0.0.1", "layout": rng.choice(["default", "multi"])},
           {"t": 0.0, "op": "peer", "p": "Q1", "ip": "10.0.0.9", "ports": [5353, 5354]},
           {"t": 0.0, "op": "peer", "p": "Q2", "ip": "10.0.0.10", "ports": [5353]}]
    t = 0.02
    for s in svcs:
        ops.append({"t": round(t, 3), "op": "register", "h": "R", "svc": s})
        t += 0.01
    t = rng.choice([2.0, 2.0, 40.0, 1300.0])
    qid = 1
    nq = rng.choice([1, 2, 3, 4, 6] + ([9, 14] if tier == "thorough" else []))
    for _ in range(nq):
        t += rng.choice(GRID) if rng.random() < 0.7 else rng.random() * 1.5
        peer = rng.choice(["Q1", "Q1", "Q2"])
        sp = 5354 if (peer == "Q1" and rng.random() < 0.15) else 5353
        kind = rng.random()
        s = rng.choice(svcs)
        r = SvcRecords(s)
        if kind < 0.3:
            qs = [[rng.choice([(s["name"], 33), (r.server, 1), (r.server, 28)])]]
            qs = [[qs[0][0][0], qs[0][0][1], 0]]
        elif kind < 0.55:
            qs = [[s["type"], 12, 0]]
        else:
            qs = []
            for _q in range(rng.choice([2, 3])):
                s2 = rng.choice(svcs)
                r2 = SvcRecords(s2)
                qn, qt = rng.choice([(s2["type"], 12), (s2["name"], 33), (s2["name"], 16), (r2.server, 1), (s2["name"], 255)])
                qs.append([qn, qt, int(rng.random() < 0.1)])
        msg = {"q": qs, "id": qid}
        if rng.random() < 0.15:
            msg = {"q": [[s["type"], 12, int(rng.random() < 0.5)]], "ns": [r.ptr.to_json()], "id": qid}
        if rng.random() < 0.2:
            k = rng.choice([r.ptr, r.srv, r.txt])
            msg["an"] = [wire.RR(k.name, k.type, rng.choice([k.ttl, k.ttl // 2]), k.rdata).to_json()]
        if rng.random() < 0.2 and "ns" not in msg:
            # truncated train: 1..4 packets, last one with or without TC
            npk = rng.choice([1, 2, 3, 4])
            tt = t
            # now and then two queriers with the same cache send the very same train (same bytes), their packets
            # interleaved in any order
            twin = rng.random() < 0.2
            for i in range(npk):
                m2 = dict(msg)
                m2["id"] = qid
                m2["tc"] = 1 if (i < npk - 1 or rng.random() < 0.5) else 0
                if i > 0:
                    if rng.random() < 0.5:
                        m2["q"] = []
                    k = rng.choice([r.ptr, r.srv, r.txt] + r.addrs)
                    m2["an"] = [wire.RR(k.name, k.type, k.ttl, k.rdata).to_json()] if rng.random() < 0.7 else msg.get("an", [])
                src_peer = peer if rng.random() < 0.85 else ("Q2" if peer == "Q1" else "Q1")
                # (sp: now and then the whole train comes from a legacy source port - a resolver that asks from an
                # ephemeral port and has more known answers than fit one packet)
                ops.append({"t": round(tt + 0.0000005 + qid * 0.000003, 7), "op": "send", "p": src_peer,
                            "src_port": sp if src_peer == "Q1" else 5353, "msg": m2})
                if twin:
                    other = "Q2" if src_peer == "Q1" else "Q1"
                    ops.append({"t": round(tt + 0.0000005 + qid * 0.000003 + rng.choice([-0.002, 0.0000011, 0.001, 0.004, 0.03]), 7),
                                "op": "send", "p": other, "src_port": 5353, "msg": m2})
                qid += 1
                tt += rng.choice([0.0, 0.01, 0.1, 0.399, 0.4, 0.401, 0.45, 0.499, 0.5, 0.501, 0.6])
            t = tt
            continue
        ops.append({"t": round(t + 0.0000005 + qid * 0.000003, 7), "op": "send", "p": peer, "src_port": sp, "msg": msg})
        qid += 1
    faults = {"max_delay_us": rng.choice([0, 0, 1000, 30000]), "loop_delay_us": rng.choice([0, 200, 1000]),
              "dup_p": rng.choice([0.0, 0.1]), "grid_p": 0.3}
    return {"timer_slop_us": rng.choice([0, 0, 0.1]), "ops": ops, "faults": faults, "end": round(t + 3.0, 3), "jitter_mode": rng.choice([None, None, None, "min", "max"])}


class Release:
    def __init__(self, t_lo, t_hi, packets, src, sock, legacy):
        self.t_lo, self.t_hi, self.packets, self.src, self.sock, self.legacy = t_lo, t_hi, packets, src, sock, legacy
        self.expect = {}  # ident -> (rr, cls, lo, hi) cls in imm/agg/prot/qu; "seen multicast" = the sightings log
        self.expect_lib = {}  # the same with the library's notion of "seen multicast": its cache entry of the record


def execute(scenario, seed, overrides=None):
    out = runner.Outcome()
    w = World(seed, FaultConfig(**scenario.get("faults", {})), overrides, jitter_mode=scenario.get("jitter_mode"),
              timer_slop=scenario.get("timer_slop_us", 0) / 1e6)
    stats = {"queries": 0, "tc_packets": 0, "tc_trains_released_by_timer": 0, "tc_trains_released_by_packet": 0,
             "immediate": 0, "aggregated": 0, "protected": 0, "answers_judged": 0, "probes": 0, "legacy": 0,
             "jitter_forced": int(scenario.get("jitter_mode") is not None), "suppressed_by_known": 0}
    try:
        drv = Driver(w, scenario)
        reg = ModelRegistry()
        st = {"hm": None, "deferred": {}, "releases": [], "t_ready": None, "sight": {}, "flush_marks": {}, "causes": set()}

        def fold_api():
            for e in w.api_log:
                if e["op"] == "register" and e["t_done"] is not None and e["exc"] is None and not e.get("_c12"):
                    e["_c12"] = True
                    reg.register(e["svc"])
                    st["t_ready"] = max(st["t_ready"] or 0, e["t_done"] + 0.9)

        def classify(rel, t_now_ref, cache, seen_then=None):
            """Fill rel.expect from the assembled packets, mirroring RFC 6762 classes as the property states them.
            seen_then: the sightings as they were at the beginning of a release interval (log, library), judged at the
            end of it - what was multicast inside the interval may be this very answer."""
            pk = rel.packets
            probe = any(m.authorities for (_, m) in pk)
            known = {}
            if True:
                for (_, m) in pk:
                    if not m.authorities:
                        for r in m.answers:
                            known.setdefault(r.ident(), []).append(r.ttl)
            # "a query consisting of a single SRV, A, AAAA or NSEC question": the query is the whole assembled train
            first_q = [q for (_, m) in pk for q in m.questions]
            for (_, m) in pk:
                for q in m.questions:
                    req, opt = reg.answers(q)
                    for r in req + opt:
                        optional = any(r is o for o in opt)
                        kts = known.get(r.ident())
                        if kts and all(kt > r.ttl / 2 for kt in kts):
                            stats["suppressed_by_known"] += 1
                            continue
                        if kts and any(kt > r.ttl / 2 for kt in kts):
                            optional = True  # listed several times with TTLs on both sides of half: either way is fine
                        e = cache.e.get(r.ident())
                        seen_lib = e.created if e is not None else None
                        seen_log = st["sight"].get(r.ident())
                        if seen_then is not None:
                            seen_log, seen_lib = seen_then[0].get(r.ident()), seen_then[1].get(r.ident())
                        for table, seen in ((rel.expect, seen_log), (rel.expect_lib, seen_lib)):
                            if q.qu and not rel.legacy:
                                cls, lo, hi = "qu", rel.t_lo, rel.t_hi
                            elif probe:
                                cls, lo, hi = "imm", rel.t_lo, rel.t_hi
                            elif seen is not None and t_now_ref - seen < 1000.0:
                                cls, lo, hi = "prot", seen / 1000.0 + 1.0, rel.t_hi + 1.2
                            elif len(first_q) == 1 and first_q[0].type in IMMEDIATE:
                                cls, lo, hi = "imm", rel.t_lo, rel.t_hi
                            else:
                                cls, lo, hi = "agg", rel.t_lo + 0.02, rel.t_hi + 0.5
                            table.setdefault(r.ident(), []).append((r, cls, lo, hi, optional))
                        if seen_then is None and not (q.qu and not rel.legacy) and not probe and \
                                (seen_log is not None and t_now_ref - seen_log < 1000.0) != \
                                (seen_lib is not None and t_now_ref - seen_lib < 1000.0):
                            st["causes"].add(sighting_cause(cache, st["sight"], st["flush_marks"], r,
                                                            any(s_.family == AF_INET6 for s_ in w.net.sockets
                                                                if s_.owner.name == "R")))
            if probe:
                stats["probes"] += 1
            if rel.legacy:
                stats["legacy"] += 1

        guards = {}

        def on_rx(t, rsock, data, addr, tx_idx, copy):
            if rsock.owner.name != "R":
                return
            if st["hm"] is None:
                st["hm"] = HostModel(w.hosts["R"].start_time)
            hm = st["hm"]
            fold_api()
            if w.net.trace[tx_idx].multicast and len(data) <= wire.MAX_ABS:
                m2 = wire.try_decode(data)
                if m2 is not None and m2.is_response:
                    for r2 in m2.records():
                        if r2.ttl > 0:
                            st["sight"][r2.ident()] = t * 1000.0
            msg, eff = hm.on_rx(t, rsock.label, data, v6sock=rsock.family == AF_INET6, src=addr)
            if eff is not None:
                for i2 in eff.flushed:
                    st["flush_marks"][i2] = t * 1000.0
            src_ip = addr[0].replace("::ffff:", "")
            if msg is None or msg.is_response or src_ip == "10.0.0.1":
                return
            if not reg.s:
                return
            stats["queries"] += 1
            legacy = addr[1] != 5353
            # "held for continuation packets from the same source": a querier on a legacy port is a source of its own
            key = (rsock.label, src_ip) if not legacy else (rsock.label, src_ip, addr[1])
            if msg.tc:
                stats["tc_packets"] += 1
                d = st["deferred"].get(key)
                starts, prev_pk = [0], []
                if d is not None and t > d["last"] + 0.4 - 1e-9:
                    # the hold timer of the earlier packets may already have fired: the train may continue from any of
                    # its possible starts, or start afresh with this packet
                    rel0 = make_timer_release(d, key)
                    rel0.ambiguous = True
                    st["releases"].append(rel0)
                    del st["deferred"][key]
                    prev_pk = list(d["pk"])
                    starts = sorted(set(d["starts"]) | {len(prev_pk)})
                    d = None
                if d is None:
                    d = st["deferred"][key] = {"pk": prev_pk, "last": None, "legacy": legacy, "starts": starts}
                if any(p[2] == data for p in d["pk"]):
                    return
                d["pk"].append((t, msg, data))
                d["last"] = t
                d["legacy"] = legacy
                d["relA"] = None
                d.pop("seenA", None)
                # the hold timer fires between 400 and 500 ms after the last packet: classify at both ends
                w.loop.call_at(t + 0.4, timer_probe, key, t, "A")
                w.loop.call_at(t + 0.5 + 2e-6, timer_probe, key, t, "B")
                return
            # a one-shot query from a legacy port is another querier on that host: it neither joins nor ends the train
            # of the mDNS port (its key differs); it does end a train of its own
            d = st["deferred"].pop(key, None)
            packets = []
            if d is not None:
                if t <= d["last"] + 0.4 - 1e-9 and len(d["starts"]) == 1:
                    packets = [(a, b) for (a, b, c) in d["pk"][d["starts"][0]:]]
                    stats["tc_trains_released_by_packet"] += 1
                else:
                    # the hold timer may or may not have fired already: every assembly is possible
                    rel0 = make_timer_release(d, key)
                    rel0.ambiguous = True
                    st["releases"].append(rel0)
                    packets = None
            if packets is None:
                alts = [[(a, b) for (a, b, c) in d["pk"][s0:]] + [(t, msg)] for s0 in d["starts"]] + [[(t, msg)]]
                for pkts in alts:
                    rel = Release(t, t, pkts, src_ip, rsock.label, legacy)
                    classify(rel, t * 1000.0, hm.cache)
                    rel.ambiguous = True
                    st["releases"].append(rel)
                return
            packets.append((t, msg))
            rel = Release(t, t, packets, src_ip, rsock.label, legacy)
            classify(rel, t * 1000.0, hm.cache)
            st["releases"].append(rel)

        def make_timer_release(d, key):
            last = d["last"]
            st["hm"].cache.advance(w.now)
            rels = []
            for s0 in d["starts"]:
                pk = d["pk"][s0:]
                if not pk:
                    continue
                r = Release(last + 0.4, last + 0.5, [(a, b) for (a, b, c) in pk], key[1], key[0], d["legacy"])
                # the query is complete - "arrives" - when it is released: what was seen multicast less than a second
                # before THAT instant is protected (the reply is timed from the release as well, repair D10); judged at
                # the instant this is evaluated, which lies inside the release interval (fourth audit, D69)
                classify(r, min(max(w.now, last + 0.4), last + 0.5) * 1000.0, st["hm"].cache)
                if "seenA" not in d:
                    d["seenA"] = (dict(st["sight"]), {i: e.created for i, e in st["hm"].cache.e.items()})
                elif s0 == d["starts"][0]:
                    # at the end of the release interval: what was multicast inside the interval may be this very
                    # answer - the view with the sightings as they were at its beginning is possible as well
                    r2 = Release(last + 0.4, last + 0.5, [(a, b) for (a, b, c) in pk], key[1], key[0], d["legacy"])
                    classify(r2, min(max(w.now, last + 0.4), last + 0.5) * 1000.0, st["hm"].cache, d["seenA"])
                    for tb in ("expect", "expect_lib"):
                        for ident, alts in getattr(r2, tb).items():
                            have = getattr(r, tb).setdefault(ident, [])
                            have.extend(x for x in alts if (x[1], x[2], x[3]) not in {(y[1], y[2], y[3]) for y in have})
                r.ambiguous = len(d["starts"]) > 1
                rels.append(r)
            rel = rels[0]
            rel.packets3 = list(d["pk"])
            rel.timer = True
            # alternative assemblies: the earlier packets were already released, only the later ones are held
            for alt in rels[1:]:
                st["releases"].append(alt)
            return rel

        def timer_probe(key, t_last, which):
            d = st["deferred"].get(key)
            if d is None or d["last"] != t_last:
                return
            rel = make_timer_release(d, key)
            if which == "A":
                d["relA"] = rel
                return
            del st["deferred"][key]
            a = d.get("relA")
            if len(d["starts"]) > 1 or a is None or any(
                    {k: sorted(x[1] for x in v) for k, v in getattr(a, tb).items()} !=
                    {k: sorted(x[1] for x in v) for k, v in getattr(rel, tb).items()} for tb in ("expect", "expect_lib")):
                rel.ambiguous = True
            if a is not None:
                # the cache may have changed between the two ends of the release interval: either view is possible
                for tb in ("expect", "expect_lib"):
                    for ident, alts in getattr(a, tb).items():
                        getattr(rel, tb).setdefault(ident, []).extend(alts)
            st["releases"].append(rel)
            stats["tc_trains_released_by_timer"] += 1

        w.net.on_rx = on_rx
        orig_host = drv.op_host

        def op_host(op):
            orig_host(op)
            w.hosts[op["h"]].start_time = w.now

        drv.op_host = op_host

        async def main():
            drv.schedule_all()
            await w.sleep_until(scenario["end"])

        w.run(main())
        _oracle(w, st, stats, out, scenario)
        for e in w.loop.exceptions:
            out.add("C12.loop-exception", f"exception reached the loop handler: {e}")
            break
        out.digest = w.digest()
        out.interleaving = w.interleaving_digest()
        out.sim_seconds = w.now - w.t0
        out.decisions = w.dec.recorded
        out.stats.update({f"fault_{k}": v for k, v in w.net.fault_counts.items()})
        out.stats.update(stats)
        out.nontrivial = stats["queries"] >= 2 and stats["answers_judged"] >= 1
        out.sample = {"ops": [o for o in scenario["ops"] if o["op"] == "send"][:4], "jitter_mode": scenario.get("jitter_mode"),
                      "stats": {k: v for k, v in stats.items() if v}}
    finally:
        w.teardown()
    return out


class _Sink:
    def __init__(self):
        self.items = []

    def add(self, clause, detail, **sig):
        self.items.append((clause, detail, sig))


def _oracle(w, st, stats, out, sc):
    """First against the statement's notion of 'saw multicast less than a second ago' (the log of multicast sightings);
    when that fails and the library's notion (its cache entry) explains everything, the deviation is the known
    sighting-proxy finding; what neither notion explains is a violation."""
    first = _Sink()
    _oracle_pass(w, st, dict(stats), first, sc, "expect")
    second = _Sink()
    _oracle_pass(w, st, stats, second, sc, "expect_lib")
    if first.items and not second.items:
        stats["sighting_proxy_followed"] = stats.get("sighting_proxy_followed", 0) + 1
        for cause in sorted(st["causes"]) or ["unclassified"]:
            out.add("C12.sighting-proxy", f"{first.items[0][1]} - the library's timing is the one that follows from its cache "
                    f"entry instead of the multicast sightings ({cause})", cause=cause)
        _protection_clause(w, st, out)
        return
    for clause, detail, sig in (second.items if first.items else []):
        out.add(clause, detail, **sig)
    _protection_clause(w, st, out)


def _protection_clause(w, st, out):
    """'... is not multicast again until at least one second after that sighting': judged from the log of multicast
    sightings, whichever query the later transmission was meant for. The library decides when a query arrives and
    never revisits an answer that is already queued, so a copy decided before the sighting goes out on its own
    schedule: where another delivered query accounts for the transmission that is the known finding, where none does
    it is a violation."""
    t0 = w.t0
    t_ready = st["t_ready"]
    if t_ready is None:
        return
    rels = st["releases"]
    mtx = [tx for tx in w.net.trace if tx.host == "R" and tx.multicast and tx.msg is not None and tx.msg.is_response
           and tx.t > t_ready]
    probes = [r2 for r2 in rels if any(m.authorities for _, m in r2.packets)]  # "probe replies excepted"
    for rel in rels:
        if rel.t_lo <= t_ready or getattr(rel, "ambiguous", False) or getattr(rel, "timer", False):
            continue
        for ident, alts in rel.expect.items():
            prot = [a for a in alts if a[1] == "prot"]
            if not prot or len(prot) != len(alts):
                continue
            lo = min(a[2] for a in prot)  # sighting + 1 s
            early = [tx for tx in mtx if rel.t_hi + EPS < tx.t < lo - EPS and
                     any(a.ident() == ident and a.ttl > 0 for a in tx.msg.answers) and
                     not any(r2.t_lo - EPS <= tx.t <= r2.t_hi + EPS for r2 in probes)]
            if not early:
                continue
            tx = early[0]
            def covers(r2):
                for (_, _, lo2, hi2, _) in r2.expect.get(ident, []) + r2.expect_lib.get(ident, []):
                    if getattr(r2, "ambiguous", False):
                        lo2, hi2 = min(lo2, r2.t_lo), max(hi2, r2.t_hi + 1.2)
                    if lo2 - EPS <= tx.t <= hi2 + EPS:
                        return True
                return False

            if any(lo2 - EPS <= tx.t <= hi2 + EPS for (_, _, lo2, hi2, _) in rel.expect_lib.get(ident, [])):
                continue  # the library did not know of the sighting: reported as the sighting-proxy finding
            other = any(r2 is not rel and covers(r2) for r2 in rels)
            out.add("C12.multicast-within-a-second-of-sighting", f"{alts[0][0]!r}: seen multicast at {lo - 1.0 - t0:.6f}, "
                    f"less than a second before the query delivered at {rel.t_lo - t0:.6f} "
                    f"({[m.questions for _, m in rel.packets][:1]}), yet multicast again at {tx.t - t0:.6f}, "
                    f"{1000 * (tx.t - (lo - 1.0)):.0f} ms after that sighting"
                    + (" (as the answer to another query, decided before the sighting)" if other else ""),
                    decided_for_another_query=other)
            return


def _oracle_pass(w, st, stats, out, sc, table):
    t0 = w.t0
    t_ready = st["t_ready"]
    if t_ready is None:
        return
    rels = st["releases"]
    mtx = [tx for tx in w.net.trace if tx.host == "R" and tx.multicast and tx.msg is not None and tx.msg.is_response
           and tx.t > t_ready]
    # one logical transmission per sending socket: judge the first socket only for duplicates inside a batch
    for tx in mtx:
        ids = [r.ident() for r in tx.msg.answers]
        if len(ids) != len(set(ids)):
            out.add("C12.duplicate-in-batch", f"multicast response at {tx.t - t0:.6f} lists an answer twice: {tx.msg.answers}")
        extra = [r for r in tx.msg.additionals if r.ident() in set(ids)]
        if extra:
            out.add("C12.duplicate-in-batch", f"multicast response at {tx.t - t0:.6f} repeats an answer as additional: {extra[:2]}")
    # safety: every multicast answer lies in the window of a justifying release
    for tx in mtx:
        for r in tx.msg.answers:
            if r.ttl == 0:
                continue
            stats["answers_judged"] += 1
            ok = False
            why = []
            for rel in rels:
                for (_, cls, lo, hi, _opt) in getattr(rel, table).get(r.ident(), []):
                    if getattr(rel, "ambiguous", False):
                        lo, hi = min(lo, rel.t_lo), max(hi, rel.t_hi + 1.2)
                    if lo - EPS <= tx.t <= hi + EPS:
                        ok = True
                        break
                    why.append((cls, round(lo - t0, 4), round(hi - t0, 4)))
                if ok:
                    break
            if not ok:
                out.add("C12.answer-outside-window", f"{r!r} multicast at {tx.t - t0:.6f} but no delivered query justifies "
                        f"that instant; candidate windows (class, from, to): {why[:4]}",
                        cls=why[0][0] if why else "none", early=bool(why and tx.t < why[0][1] + t0))
    # liveness: every expected answer shows up inside its window
    end = w.now
    for rel in rels:
        if rel.t_lo <= t_ready or getattr(rel, "ambiguous", False):
            continue
        for ident, alts in getattr(rel, table).items():
            need = [a for a in alts if a[1] != "qu" and not a[4]]
            r = alts[0][0]
            if not need or r.type == wire.T_NSEC:
                continue
            hi = max(a[3] for a in alts)
            cls = need[0][1]
            if hi + EPS >= end:
                continue
            stats[{"imm": "immediate", "agg": "aggregated", "prot": "protected"}[cls]] += 1
            lo_l = rel.t_lo
            # (the record reaches the querier in whatever section of a multicast response it travels)
            hit = [tx for tx in mtx if lo_l - EPS <= tx.t <= hi + EPS and any(a.ident() == ident and a.ttl > 0
                                                                             for a in tx.msg.records())]
            if not hit:
                sent = [round(tx.t - t0, 4) for tx in mtx if any(a.ident() == ident for a in tx.msg.answers)]
                out.add("C12.answer-missing-or-late", f"{r!r} asked for by {[m.questions for _, m in rel.packets][:2]} released at "
                        f"[{rel.t_lo - t0:.6f}, {rel.t_hi - t0:.6f}] (class {cls}) was not multicast by {hi - t0:.6f}; it was "
                        f"multicast at {sent[-4:]}", cls=cls, timer=bool(getattr(rel, "timer", False)))


if __name__ == "__main__":
    import checks.c12 as me

    sys.exit(runner.main(me))
