"""C03 - responder answers exactly what is registered, minus what the querier knows."""
import sys

from sim import runner, wire
from sim.driver import Driver
from sim.models import GuardSet
from sim.net import FaultConfig
from sim.svc import ENUM, SvcRecords, gen_services
from sim.world import World

PROPERTY = "C03"
LEVEL = "exploration"
QUICK_BUDGET = 25.0
THOROUGH_BUDGET = 900.0
RULE = ("One real responder; register/update/unregister of 0..6 services (1..3 types incl. one subtype, shared and "
        "distinct host names, v4-only/v6-only/dual, re-cased spellings, custom TTLs) through AsyncZeroconf at arbitrary "
        "virtual times - also while an earlier registration is still probing/announcing - interleaved with queries of "
        "1..4 class-IN questions (PTR/A/AAAA/SRV/TXT/ANY/NSEC/unknown over registered, re-cased and unregistered names "
        "and the enumeration name) with known-answer lists at TTL below/at/above half, sent from a legacy (non-5353) "
        "source port so that the complete answer set comes back in the unicast reply. The reply is decoded by the "
        "independent codec and compared with ModelRegistry. 15 % of the runs split half of their queries into a truncated "
        "packet and a completing packet 110..280 ms later (more known answers, or a probe with authority records): the "
        "reply must be the one to the assembled query. Non-trivial = at least one query was answered and at least "
        "two registry operations took effect.")
ASSUMPTIONS = [
    "a packet that meets held truncated packets 400..500 ms after the last of them (the responder's own random release "
    "time) is not judged either way; a held query that is released by the timer is judged at its reply, and not at all "
    "when it stays unanswered (C12 owns that)",
    "ModelRegistry changes state when the awaited API call takes effect (register: at return; update/unregister: at the call)",
    "NSEC answers are judged by type, denied rdtypes and TTL; their owner may be the instance or the host name; an NSEC is "
    "required only when no registered service on that host name has an address of the asked type",
    "ANY questions on host names and NSEC records in known-answer lists are outside the completeness claim (as stated)",
    "where the model leaves a record optional, the reply is still required to be a function of the registered set and "
    "the query: identical queries against the same registered set (reached along different register/unregister "
    "histories) must be offered the same optional records",
]

UNKNOWN_TYPE = 99


def generate(rng, tier):
    types = ["_http._tcp.local.", "_ipp._tcp.local."]
    if rng.random() < 0.3:
        types[0] = "_HTTP._tcp.local."
    n = rng.choice([1, 2, 3, 4, 6])
    svcs = gen_services(rng, n, types=types[:rng.choice([1, 2, 2])], hosts=["hosta.local.", "HostB.local."],
                        custom_ttl=True, case_mix=True)
    if rng.random() < 0.35:
        # the usual case on a real machine: its services share its addresses (some of them have the IPv6 one as well)
        by_host = {}
        for s in svcs:
            first = by_host.setdefault(s["server"].lower(), s)
            if first is not s:
                v4 = [a for a in first["addrs"] if ":" not in a][:1]
                s["addrs"] = v4 + [a for a in s["addrs"] if ":" in a] if v4 else s["addrs"]
    for s in svcs:
        if rng.random() < 0.2:
            s.pop("server")  # ServiceInfo without server=: the library fills in the instance name
    if rng.random() < 0.3:
        base = svcs[0]
        sub = dict(base)
        sub["type"] = "_printer._sub." + base["type"]
        sub["name"] = "Sub" + base["name"]
        svcs.append(sub)
    ops = [{"t": 0.0, "op": "host", "h": "R", "ip": "10.0.0.1", "layout": rng.choice(["default", "multi"])},
           {"t": 0.0, "op": "peer", "p": "Q", "ip": "10.0.0.9", "ports": [5353, 5354]}]
    t = 0.05
    state = {}  # name -> svc (generator's own view, only to aim queries)
    nops = rng.choice([3, 5, 8, 12] + ([16, 24, 40] if tier == "thorough" else []))
    qid = 1
    for _ in range(nops):
        k = rng.random()
        s = rng.choice(svcs)
        if k < 0.4 or not state:
            ops.append({"t": round(t, 3), "op": "register", "h": "R", "svc": s})
            state[s["name"]] = s
        elif k < 0.65:
            s = rng.choice(list(state.values()))
            s2 = dict(s)
            ch = rng.choice(["port", "props", "addrs", "server", "type", "ttl"])
            if ch == "type":
                # the same instance moves between its base type and a subtype-qualified type
                if "._sub." in s["type"]:
                    s2["type"] = s["type"].split("._sub.", 1)[1]
                else:
                    s2["type"] = "_printer._sub." + s["type"]
            elif ch == "ttl":
                s2["host_ttl"] = 60 if s.get("host_ttl", 120) != 60 else 240
                s2["other_ttl"] = 1200 if s.get("other_ttl", 4500) != 1200 else 2000
            elif ch == "port":
                s2["port"] = s["port"] + 1
            elif ch == "props":
                s2["props"] = {"v": str(rng.randrange(100))}
            elif ch == "addrs":
                s2["addrs"] = rng.choice([["10.7.7.7"], ["fe80::7"], ["10.7.7.7", "fe80::7"]])
            else:
                s2["server"] = rng.choice(["hosta.local.", "HostB.local.", "hostc.local."])
            for i2, x in enumerate(svcs):
                if x["name"] == s["name"]:
                    svcs[i2] = s2
            # in-place mutation of the application's ServiceInfo object (not of its host name, which would
            # be a change of the registry's index key behind its back)
            ops.append({"t": round(t, 3), "op": "update", "h": "R", "svc": s2,
                        "mutate": ch != "server" and rng.random() < 0.5})
            state[s2["name"]] = s2
        else:
            s = rng.choice(list(state.values()))
            ops.append({"t": round(t, 3), "op": "unregister", "h": "R", "name": s["name"]})
            state.pop(s["name"], None)
        # queries around the op: during probing, right after return, later
        for _q in range(rng.choice([1, 2, 3])):
            tq = t + rng.choice([0.0, 0.1, 0.2, 0.34, 0.36, 0.5, 1.0, 2.0]) + 0.0000005
            ops.append(_query(rng, tq, svcs, list(state.values()), qid))
            qid += 1
        t += rng.choice([0.0, 0.05, 0.4, 1.0, 3.0])
    if state and rng.random() < 0.35:
        # the same registered set reached along two histories: ask, withdraw and re-register one service (which moves it
        # to the end of the registry's order), ask the same again
        t += 2.5
        live = list(state.values())
        qs = [_query(rng, 0.0, svcs, live, 0) for _ in range(rng.choice([2, 3, 5]))]
        for rounds in range(rng.choice([1, 2])):
            for q in qs:
                q2 = {**q, "t": round(t + 0.0000005, 7), "msg": {**q["msg"], "id": qid}}
                ops.append(q2)
                qid += 1
                t += 1.1
            v = rng.choice(live)
            ops.append({"t": round(t, 3), "op": "unregister", "h": "R", "name": v["name"]})
            ops.append({"t": round(t + 0.6, 3), "op": "register", "h": "R", "svc": v})
            t += 2.5
        for q in qs:
            ops.append({**q, "t": round(t + 0.0000005, 7), "msg": {**q["msg"], "id": qid}})
            qid += 1
            t += 1.1
    if rng.random() < 0.35:
        # ordinary multicast queries (port 5353, several questions: the answers wait in the aggregation or the
        # one-second queue) shortly before an update or unregister: what is multicast afterwards must be the new state
        for o in [o for o in ops if o["op"] in ("update", "unregister")]:
            if rng.random() < 0.6:
                sv = o["svc"] if o["op"] == "update" else next((x for x in svcs if x["name"] == o["name"]), svcs[0])
                r = SvcRecords(sv)
                qs = rng.choice([[[sv["name"], wire.T_SRV, 0], [r.server, wire.T_A, 0]],
                                 [[ENUM, wire.T_PTR, 0], [sv["name"], wire.T_TXT, 0]],
                                 [[sv["type"], wire.T_PTR, 0], [r.server, rng.choice([wire.T_A, wire.T_AAAA]), 0]],
                                 [[r.server, wire.T_A, 0], [r.server, wire.T_AAAA, 0]]])
                ops.append({"t": round(max(0.01, o["t"] - rng.choice([0.005, 0.02, 0.06, 0.11, 0.3, 0.9, 1.1])), 7),
                            "op": "send", "p": "Q", "src_port": 5353, "msg": {"q": qs, "id": 0}})
    ops.sort(key=lambda o: o["t"])
    split = rng.random() < 0.15
    if split:
        # queries that come as a truncated packet (questions and known answers) followed 110..280 ms later - inside the
        # 400 ms the responder waits - by the packet that completes them, from the same source port: more known
        # answers, or the probe for a name the querier is about to claim (RFC 6762 8.1: questions plus authority
        # records, no known answers of its own). What the first packet listed as known stays known
        for o in ops:
            if o["op"] == "send" and o.get("src_port") == 5354 and rng.random() < 0.5:
                o["msg"]["tc"] = 1
                if rng.random() < 0.6:
                    nm = "Newcomer." + svcs[0]["type"].split("._sub.")[-1]
                    m2 = {"q": [[nm, wire.T_ANY, 0]], "id": o["msg"]["id"] + 5000,
                          "ns": [wire.RR(nm, wire.T_SRV, 120, (0, 0, 99, "newcomer.local.")).to_json()]}
                else:
                    q2 = _query(rng, 0.0, svcs, list(state.values()), o["msg"]["id"] + 5000)
                    m2 = q2["msg"]
                o["then"] = {"dt": rng.choice([0.11, 0.15, 0.2, 0.28]), "msg": m2}
    faults = {"max_delay_us": rng.choice([0, 2000, 100000]), "loop_delay_us": rng.choice([0, 1000]),
              "dup_p": rng.choice([0.0, 0.2]), "grid_p": 0.0}
    if split:
        # (a late copy of a truncated packet would be held and answered on its own by the timer: C12's subject)
        faults["dup_p"] = 0.0
    return {"timer_slop_us": rng.choice([0, 0, 0.1]), "ops": ops, "faults": faults, "end": round(t + 4.0, 3)}


def _recase(rng, name):
    k = rng.random()
    if k < 0.6:
        return name
    if k < 0.8:
        return name.upper()
    return name.lower()


def _query(rng, t, svcs, live, qid):
    qs = []
    known = []
    pool = live if (live and rng.random() < 0.8) else svcs
    for _ in range(rng.choice([1, 1, 2, 3, 4])):
        s = rng.choice(pool)
        rec = SvcRecords(s)
        k = rng.random()
        if k < 0.25:
            q = [s["type"], wire.T_PTR]
            cand = [rec.ptr]
        elif k < 0.3 and rng.random() < 0.5:
            q = ["_printer._sub." + s["type"].split("._sub.")[-1], wire.T_PTR]
            cand = [rec.ptr]
        elif k < 0.35:
            q = [ENUM, wire.T_PTR if rng.random() < 0.8 else wire.T_ANY]
            cand = [wire.RR(ENUM, wire.T_PTR, 4500, s["type"])]
        elif k < 0.5:
            q = [s["name"], wire.T_SRV]
            cand = [rec.srv]
        elif k < 0.6:
            q = [s["name"], wire.T_TXT]
            cand = [rec.txt]
        elif k < 0.75:
            q = [rec.server, rng.choice([wire.T_A, wire.T_AAAA])]
            cand = rec.addrs
        elif k < 0.85:
            q = [rng.choice([s["name"], s["type"], rec.server]), wire.T_ANY]
            cand = rec.all()
        elif k < 0.9:
            q = [rng.choice([s["name"], rec.server]), wire.T_NSEC]
            cand = []
        elif k < 0.95:
            q = [rng.choice([s["name"], s["type"], rec.server]), UNKNOWN_TYPE]
            cand = []
        else:
            q = ["Nobody." + s["type"], rng.choice([wire.T_SRV, wire.T_TXT, wire.T_PTR])]
            cand = []
        q[0] = _recase(rng, q[0])
        qs.append([q[0], q[1], 0])
        for r in cand:
            if r.type == wire.T_NSEC:
                continue
            if rng.random() < 0.35:
                half = r.ttl // 2
                ttl = rng.choice([half - 1, half, half + 1, r.ttl, 1, r.ttl * 2])
                nm = _recase(rng, r.name)
                known.append(wire.RR(nm, r.type, max(ttl, 0), r.rdata).to_json())
    return {"t": round(t, 7), "op": "send", "p": "Q", "src_port": 5354,
            "msg": {"q": qs, "an": known, "id": qid}}


class ModelRegistry:
    def __init__(self):
        self.s = {}  # name.lower() -> SvcRecords

    def register(self, svc):
        self.s[svc["name"].lower()] = SvcRecords(svc)

    def unregister(self, name):
        self.s.pop(name.lower(), None)

    def types(self):
        return {r.type.lower() for r in self.s.values()}

    def answers(self, q):
        """-> (required answers, allowed-but-optional answers) for one question."""
        req, opt = [], []
        name = q.name.lower()
        t = q.type
        if q.cls != wire.C_IN:
            return req, opt
        if t in (wire.T_PTR, wire.T_ANY) and name == ENUM:
            for ty in sorted(self.types()):
                req.append(wire.RR(ENUM, wire.T_PTR, 4500, ty))
            return req, opt
        for r in self.s.values():
            if t in (wire.T_PTR, wire.T_ANY) and r.type.lower() == name:
                req.append(r.ptr)
            if t in (wire.T_SRV, wire.T_ANY) and r.name.lower() == name:
                req.append(r.srv)
            if t in (wire.T_TXT, wire.T_ANY) and r.name.lower() == name:
                req.append(r.txt)
            if t in (wire.T_A, wire.T_AAAA) and r.server.lower() == name:
                have = [a for a in r.addrs if a.type == t]
                req.extend(have)
                if not have and r.nsec is not None:
                    # "NSEC when the asked address type does not exist": the type exists when any registered service
                    # of that host name has an address of it - a reply that carries the address and denies it in the
                    # same breath is wrong (third audit, D57)
                    host_has = any(a.type == t for o in self.s.values() if o.server.lower() == name for a in o.addrs)
                    if not host_has:
                        req.append(r.nsec)
            if t == wire.T_ANY and r.server.lower() == name:
                opt.extend(r.addrs)
                if r.nsec is not None:
                    opt.append(r.nsec)
        return req, opt

    def own(self, ident):
        """Services whose own record set contains ident."""
        return [r for r in self.s.values() if ident in r.own_idents()]


def nsec_key(r):
    return ("nsec", tuple(sorted(r.rdata[1])), r.ttl)


def execute(scenario, seed, overrides=None):
    out = runner.Outcome()
    w = World(seed, FaultConfig(**scenario.get("faults", {})), overrides,
              timer_slop=scenario.get("timer_slop_us", 0) / 1e6)
    try:
        drv = Driver(w, scenario)
        reg = ModelRegistry()
        expect = {}  # query id -> dict
        stats = {"queries": 0, "answered": 0, "suppressed_known": 0, "registry_changes": 0, "enum_queries": 0,
                 "nsec_answers": 0, "queries_during_probing": 0, "additionals_seen": 0, "ptr_answers_with_full_additionals": 0,
                 "ptr_answers": 0, "repeated_queries_same_registry": 0}
        pending_reg = set()

        def apply_api():
            # fold API effects that have happened up to now into the model, in order
            evs = []
            for e in w.api_log:
                if e.get("_c03"):
                    continue
                if e["op"] == "register":
                    if e["t_done"] is not None:
                        e["_c03"] = True
                        if e["exc"] is None:
                            evs.append((e["t_done"], w.api_log.index(e), "reg", e["svc"]))
                elif e["op"] == "update":
                    if e["t_done"] is not None:
                        e["_c03"] = True
                        if e["exc"] is None:
                            evs.append((e["t_call"], w.api_log.index(e), "upd", e["svc"]))
                elif e["op"] == "unregister":
                    e["_c03"] = True
                    evs.append((e["t_call"], w.api_log.index(e), "unreg", e["args"]))
            for _, _, kind, arg in sorted(evs, key=lambda x: (x[0], x[1])):
                stats["registry_changes"] += 1
                if kind in ("reg", "upd"):
                    reg.register(arg)
                else:
                    reg.unregister(arg)

        guards = GuardSet()
        held, held_t = {}, {}
        skip = set()
        amb = {}

        def on_rx(t, rsock, data, addr, tx_idx, copy):
            if rsock.owner.name != "R":
                return
            if len(data) > wire.MAX_ABS or not guards.check(rsock.label, data, t * 1000.0, addr):
                return
            msg = wire.try_decode(data)
            guards.accept(rsock.label, data, t * 1000.0, bool(msg and any(q.qu for q in msg.questions)), addr)
            if msg is None or msg.is_response or addr[1] != 5354:
                return
            src = (addr[0], addr[1])
            apply_api()
            if not reg.s:
                # a responder with nothing registered does not listen to queries at all: the packet neither completes a
                # held query nor is it held
                return
            if msg.tc:
                # held until the packet that completes the query arrives (the generator sends it within the 400 ms the
                # responder waits; if that one is not listened to, the timer releases the query - see on_tx)
                if src in held and t - held_t[src] >= 0.4 - 1e-6:
                    # ... nor whether this packet joins the held ones or starts a query of its own
                    amb.setdefault(src, {held[src][0].id}).add(msg.id)
                held.setdefault(src, []).append(msg)
                held_t[src] = t

                def lapse(src=src, t=t):
                    # released by the responder's timer by now; it had nothing to say (else on_tx saw the reply) -
                    # whether it should have is C12's liveness clause, not judged here
                    if held_t.get(src) == t and src in held:
                        held.pop(src)
                        amb.pop(src, None)
                        stats["held_query_lapsed"] = stats.get("held_query_lapsed", 0) + 1

                w.loop.call_at(t + 0.5 + 0.003, lapse)
                stats["truncated_packets_held"] = stats.get("truncated_packets_held", 0) + 1
                return
            if src in held and (t - held_t[src] >= 0.4 - 1e-6 or src in amb):
                # the responder's timer (400..500 ms, its own draw) may or may not have released the held packets by
                # now: whether this packet completes them or stands alone is not decided here
                pk = held.pop(src)
                for i in {pk[0].id, msg.id} | amb.pop(src, set()):
                    skip.add((i, t))
                stats["completion_in_release_window"] = stats.get("completion_in_release_window", 0) + 1
                return
            note_query(held.pop(src, []) + [msg], t)

        def assemble(pkts):
            if len(pkts) == 1:
                return pkts[0]
            # the query is the questions of all its packets; known are the answer sections of the packets that are
            # not probes (a probe's records are the ones its sender is about to claim, in the authority section);
            # the reply carries the id of the first packet
            stats["assembled_queries"] = stats.get("assembled_queries", 0) + 1
            if any(p.authorities for p in pkts):
                stats["assembled_with_probe"] = stats.get("assembled_with_probe", 0) + 1
            return wire.Msg(id_=pkts[0].id, questions=[q for p in pkts for q in p.questions],
                            answers=[r for p in pkts if not p.authorities for r in p.answers])

        def on_tx(tx):
            # a held query whose completing packet never came (or was not listened to) is answered when the
            # responder's timer releases it, 400..500 ms after its last packet: its unicast reply shows the instant
            if tx.host != "R" or tx.multicast or tx.dst[1] != 5354 or tx.msg is None:
                return
            src = (tx.dst[0], tx.dst[1])
            pkts = held.get(src)
            if pkts and tx.msg.id in amb.get(src, ()):
                skip.add((tx.msg.id, tx.t))
                return
            if pkts and pkts[0].id == tx.msg.id and (tx.msg.id, tx.t) not in expect and (tx.msg.id, tx.t) not in skip:
                if not (0.4 - 1e-6 <= tx.t - held_t[src] <= 0.5 + 0.002):
                    out.add("C03.held-query-release-time", f"truncated query {tx.msg.id} answered {tx.t - held_t[src]:.4f} s "
                            "after its last packet without a completing packet, expected 0.4..0.5 s")
                held.pop(src)
                stats["released_by_timer"] = stats.get("released_by_timer", 0) + 1
                note_query(pkts, tx.t)

        def note_query(pkts, t):
            msg = assemble(pkts)
            apply_api()
            stats["queries"] += 1
            if any(e["op"] == "register" and e["t_done"] is None for e in w.api_log):
                stats["queries_during_probing"] += 1
            # a record the querier lists more than once is known with the best of the TTLs it is listed with ("minus
            # records the querier lists as known answers with more than half of that TTL")
            known = {}
            for r in msg.answers:
                known[r.ident()] = max(r.ttl, known.get(r.ident(), 0))
                if len([1 for x in msg.answers if x.ident() == r.ident()]) > 1:
                    stats["known_answer_listed_twice"] = stats.get("known_answer_listed_twice", 0) + 1
            req, opt = [], []
            for q in msg.questions:
                if q.type == wire.T_PTR and q.name.lower() == ENUM:
                    stats["enum_queries"] += 1
                a, b = reg.answers(q)
                req += a
                opt += b

            def unsuppressed(lst):
                res = {}
                for r in lst:
                    kt = known.get(r.ident())
                    if kt is not None and kt > r.ttl / 2:
                        stats["suppressed_known"] += 1
                        continue
                    res.setdefault(r.ident(), []).append(r)
                return res

            expect[(msg.id, t)] = {"t": t, "req": unsuppressed(req), "opt": unsuppressed(opt), "q": msg.questions,
                                   "own": {i: [s.name for s in reg.own(i)] for i in
                                           {x for s in reg.s.values() for x in s.own_idents()}},
                                   "known_nsec": any(r.type == wire.T_NSEC for r in msg.answers),
                                   "svc_sets": {s.name.lower(): s.own_idents() for s in reg.s.values()},
                                   "registered": sorted(reg.s),
                                   "qsig": (tuple((q.name, q.type, q.cls, q.qu) for q in msg.questions),
                                            tuple(sorted((repr(r.ident()), r.ttl) for r in msg.answers))),
                                   "state_sig": tuple(sorted((s.name.lower(), tuple(sorted(map(repr, s.own_idents()))))
                                                             for s in reg.s.values()))}

        w.net.on_rx = on_rx
        w.net.on_tx = on_tx

        async def main():
            drv.schedule_all()
            await w.sleep_until(scenario["end"])

        w.run(main())
        _oracle(w, expect, stats, out, skip)
        _multicast_state_clause(w, drv, stats, out)
        if w.loop.exceptions:
            out.add("C03.loop-exception", f"exception reached the loop handler: {w.loop.exceptions[0]}")
        out.digest = w.digest()
        out.interleaving = w.interleaving_digest()
        out.sim_seconds = w.now - w.t0
        out.decisions = w.dec.recorded
        out.stats.update({f"fault_{k}": v for k, v in w.net.fault_counts.items()})
        out.stats.update(stats)
        out.nontrivial = stats["answered"] >= 1 and stats["registry_changes"] >= 2
        out.sample = {"ops": scenario["ops"][2:7], "queries": stats["queries"], "answered": stats["answered"]}
    finally:
        w.teardown()
    return out


def _oracle(w, expect, stats, out, skip=()):
    replies = {}
    for tx in w.net.trace:
        if tx.host != "R" or tx.multicast or tx.dst[1] != 5354:
            continue
        if tx.msg is None:
            out.add("C03.undecodable-reply", f"unicast reply at {w.rel(tx.t):.6f} does not parse strictly")
            continue
        replies.setdefault(tx.msg.id, []).append(tx)
    byt = {}
    for qid, txs in replies.items():
        for tx in txs:
            byt.setdefault((qid, tx.t), []).append(tx)
    for key in byt:
        if key not in expect and key not in skip:
            out.add("C03.unsolicited-reply", f"unicast reply id {key[0]} at {w.rel(key[1]):.6f} answers no delivered query")
    groups = {}
    for (qid, tq), ex in sorted(expect.items()):
        batch = byt.get((qid, tq), [])
        answers = {}
        adds = {}
        for tx in batch:
            for r in tx.msg.answers:
                answers.setdefault(r.ident(), r)
            for r in tx.msg.additionals:
                adds.setdefault(r.ident(), r)
        if answers:
            stats["answered"] += 1
        req, opt = ex["req"], ex["opt"]

        def norm(i, r):
            return nsec_key(r)[:2] if r.type == wire.T_NSEC else i

        got_keys = {norm(i, r): r for i, r in answers.items()}
        req_keys, opt_keys = {}, {}
        for i, rs in req.items():
            req_keys.setdefault(norm(i, rs[0]), []).extend(rs)
        for i, rs in opt.items():
            opt_keys.setdefault(norm(i, rs[0]), []).extend(rs)
        missing = [rs[0] for k, rs in req_keys.items() if k not in got_keys]
        extra = [r for k, r in got_keys.items() if k not in req_keys and k not in opt_keys]
        if ex["known_nsec"]:
            missing = [r for r in missing if r.type != wire.T_NSEC]
        qdesc = f"query {qid} {ex['q']} at {w.rel(ex['t']):.6f} (registered: {ex['registered']})"
        if missing:
            out.add("C03.missing-answer", f"{qdesc}: reply lacks {missing[:3]}; got {list(answers.values())[:4]}",
                    rtype=missing[0].type)
        if extra:
            enum_extra = all(r.type == wire.T_PTR and r.name.lower() == ENUM for r in extra)
            out.add("C03.extra-answer", f"{qdesc}: reply contains {extra[:3]} which no registered service answers",
                    enum_only=enum_extra, rtype=extra[0].type)
        for k, r in got_keys.items():
            want = (req_keys.get(k) or []) + (opt_keys.get(k) or [])
            if want and r.ttl not in {x.ttl for x in want}:
                out.add("C03.answer-ttl", f"{qdesc}: {r!r} carries ttl {r.ttl}, configured {[x.ttl for x in want]}")
        stats["nsec_answers"] += sum(1 for r in answers.values() if r.type == wire.T_NSEC)
        if not missing and not extra:
            groups.setdefault((ex["qsig"], ex["state_sig"]), []).append(
                (qdesc, frozenset(k for k in got_keys if k in opt_keys and k not in req_keys)))
        # additionals: only own records of a service that is answered for, never repeating an answer
        answered_svcs = set()
        for i in answers:
            for n in ex["own"].get(i, []):
                answered_svcs.add(n.lower())
        for i, r in adds.items():
            stats["additionals_seen"] += 1
            if i in answers:
                out.add("C03.additional-repeats-answer", f"{qdesc}: additional {r!r} is also an answer")
            owners = [n.lower() for n in ex["own"].get(i, [])]
            if r.type == wire.T_NSEC:
                ok = any(nsec_key(r) == nsec_key(x) for s in answered_svcs for x in _nsecs(ex, s))
                ok = ok or bool(owners)
            else:
                ok = any(o in answered_svcs for o in owners)
            if not ok:
                out.add("C03.foreign-additional", f"{qdesc}: additional {r!r} is not an own record of an answered service "
                        f"({sorted(answered_svcs)})")
        for i, r in answers.items():
            if r.type == wire.T_PTR and r.name.lower() != ENUM:
                stats["ptr_answers"] += 1
                own = ex["svc_sets"].get(r.rdata.lower())
                if own and all((x in adds or x in answers) for x in own if x[1] != wire.T_NSEC):
                    stats["ptr_answers_with_full_additionals"] += 1
    _history_clause(groups, stats, out)


def _multicast_state_clause(w, drv, stats, out):
    """'After a service is updated or unregistered replies reflect only the new state' also holds for the replies that
    were waiting in the multicast queues when the change was made: every positive-TTL record the responder multicasts
    belongs to a service registered (in that version) at that instant."""
    evs = []
    mutated = set()
    for idx, e in enumerate(w.api_log):
        if e["op"] == "register" and e["t_done"] is not None and e["exc"] is None:
            evs.append((e["t_done"], idx, "reg", e["svc"]))
        elif e["op"] == "update" and e["t_done"] is not None and e["exc"] is None:
            evs.append((e["t_call"], idx, "upd", e["svc"]))
        elif e["op"] == "unregister":
            evs.append((e["t_call"], idx, "unreg", e["args"]))
    for i, op, entry in drv.op_log:
        if op["op"] == "update" and op.get("mutate"):
            # a ServiceInfo changed in place and handed to update again: the replaced records cannot be rebuilt from the
            # object, but whatever is queued under the service's names is stale all the same (third audit, D53)
            stats["inplace_updates"] = stats.get("inplace_updates", 0) + 1
    evs.sort(key=lambda x: (x[0], x[1]))
    # a record that several services share (the address of a common host name) with different TTLs has no single
    # configured TTL: the TTL clause leaves it alone
    ttl_by_owner = {}
    for _, _, kind, arg in evs:
        if kind in ("reg", "upd"):
            sv0 = SvcRecords(arg)
            for r0 in sv0.all():
                ttl_by_owner.setdefault(r0.ident(), {}).setdefault(sv0.name.lower(), set()).add(r0.ttl)
    # (no exemption for records that several services share: the TTLs configured by the services registered at the
    # instant of the transmission are what counts, see own_ttl below)
    mixed = set()
    times = [x[0] for x in evs]
    reg = ModelRegistry()
    k = 0
    for tx in w.net.trace:
        if tx.host != "R" or not tx.multicast or tx.msg is None or not tx.msg.is_response:
            continue
        while k < len(evs) and evs[k][0] <= tx.t:
            _, _, kind, arg = evs[k]
            if kind in ("reg", "upd"):
                reg.register(arg)
            else:
                reg.unregister(arg)
            k += 1
        if any(abs(tx.t - t) < 2e-6 for t in times):
            continue  # sent in the same instant as a change: either order is fine
        own = {i for sv in reg.s.values() for i in sv.own_idents()}
        own_ttl = {}
        for sv in reg.s.values():
            for r0 in sv.all():
                own_ttl.setdefault(r0.ident(), set()).add(r0.ttl)
        types = reg.types()
        for r in tx.msg.records():
            if r.ttl == 0 and r.type in (wire.T_A, wire.T_AAAA) and r.ident() in own and \
                    r.ident() in _own_at(evs, tx.t + 1.0) and not any(
                    t2.host == "R" and t2.multicast and tx.t < t2.t <= tx.t + 1.0 and t2.msg is not None and
                    any(r2.ttl > 0 and r2.ident() == r.ident() for r2 in t2.msg.records()) for t2 in w.net.trace):
                # an address is withdrawn although a registered service still has it, and it is not announced again
                # within the second (the goodbyes of a service that go on while another one of the same host is being
                # announced heal themselves that way - DESIGN section 6, observations): the peers drop the address
                out.add("C03.goodbye-for-registered-record", f"{r!r} withdrawn by multicast at {w.rel(tx.t):.6f} although a "
                        f"registered service still has it ({sorted(reg.s)}); last changes: "
                        f"{[(round(w.rel(t), 3), kd, a if isinstance(a, str) else a['name']) for t, _, kd, a in evs[max(0, k - 2):k]]}")
                return
            if r.ttl == 0 or r.type == wire.T_NSEC or r.name.lower() in mutated or \
                    (r.type == wire.T_PTR and r.rdata.lower() in mutated):
                continue
            if r.type == wire.T_PTR and r.name.lower() == ENUM and r.rdata.lower() in types:
                continue
            if r.ident() in own and r.ident() not in mixed and r.ttl not in own_ttl.get(r.ident(), {r.ttl}):
                out.add("C03.stale-multicast-after-change", f"{r!r} multicast at {w.rel(tx.t):.6f} carries TTL {r.ttl}, the "
                        f"registered service(s) configure {sorted(own_ttl[r.ident()])}; last changes: "
                        f"{[(round(w.rel(t), 3), kd, a if isinstance(a, str) else a['name']) for t, _, kd, a in evs[max(0, k - 2):k]]}",
                        rtype=r.type, ttl_only=True)
                return
            if r.ident() not in own:
                stats["stale_multicast"] = stats.get("stale_multicast", 0) + 1
                out.add("C03.stale-multicast-after-change", f"{r!r} multicast at {w.rel(tx.t):.6f} is not a record of any "
                        f"service registered then ({sorted(reg.s)}); last changes: "
                        f"{[(round(w.rel(t), 3), kd, a if isinstance(a, str) else a['name']) for t, _, kd, a in evs[max(0, k - 2):k]]}",
                        rtype=r.type, enum=r.name.lower() == ENUM)
                return


def _own_at(evs, t):
    """Identities owned by the services registered at instant t."""
    reg = ModelRegistry()
    for te, _, kind, arg in evs:
        if te > t:
            break
        if kind in ("reg", "upd"):
            reg.register(arg)
        else:
            reg.unregister(arg)
    return {i for sv in reg.s.values() for i in sv.own_idents()}


def _history_clause(groups, stats, out):
    """The reply is a function of the registered set and the query: where the model leaves a record optional, two
    identical queries against the same registered set must still be treated alike (whatever order the services were
    registered in, and whatever was registered and withdrawn in between)."""
    for key, lst in sorted(groups.items(), key=lambda kv: repr(kv[0])):
        if len(lst) < 2:
            continue
        stats["repeated_queries_same_registry"] += len(lst) - 1
        first = lst[0]
        for other in lst[1:]:
            if other[1] != first[1]:
                diff = sorted(map(repr, first[1] ^ other[1]))
                out.add("C03.reply-depends-on-history", f"{first[0]} and {other[0]} are the same query against the same "
                        f"registered set, but only one of the replies offers {diff[:3]}")
                return


def _nsecs(ex, svc_lower):
    return []


if __name__ == "__main__":
    import checks.c03 as me

    sys.exit(runner.main(me))
