"""C15 - a running instance survives any datagram stream."""
import struct
import sys

from sim import runner, wire
from sim.driver import Driver
from sim.net import FaultConfig
from sim.svc import SvcRecords
from sim.world import World

PROPERTY = "C15"
LEVEL = "exploration"
QUICK_BUDGET = 30.0
THOROUGH_BUDGET = 900.0
RULE = ("Victim instance with registered services, an active browser and a lookup in progress, plus an honest real peer; "
        "a scripted attacker interleaves 5..60 datagrams with the honest traffic and clock advances: uniformly random "
        "bytes (0..9100 long), mutations of datagrams captured from this run's own trace (bit flips, truncation, "
        "insertion, count- and length-field rewrites), grammar-generated hostile names (pointer chains up to 4000 "
        "deep, cycles, self/forward pointers, pointers into rdata, 63/64/65-byte and invalid-UTF-8 labels, >253-char "
        "names) in queries and responses, from port 5353 and legacy ports, plus oversized (>8966) but otherwise "
        "meaningful datagrams; in-flight corruption of honest traffic as a link fault. Oracle: nothing reaches any "
        "loop exception handler; oversized datagrams have no effect; after the stream and the faults stop a canary "
        "query is answered within 1.3 s and a canary announcement produces Added within 2 s. Non-trivial = at least "
        "5 hostile datagrams were delivered to the victim while it had registered services.")
ASSUMPTIONS = [
    "the victim's services are registered before the hostile stream starts (a forged conflicting PTR before/while probing "
    "legitimately fails a registration; that is C09's subject)",
    "canary names are fresh: no earlier datagram of the run mentions them",
]

VT = "_http._tcp.local."
CT = "_canary._tcp.local."


def _hdr(id_, flags, nq, nan, nns=0, nar=0):
    return struct.pack(">HHHHHH", id_, flags, nq, nan, nns, nar)


def _plain_name(name):
    out = b""
    for lab in name.rstrip(".").split("."):
        b = lab.encode()
        out += bytes([len(b)]) + b
    return out + b"\0"


def hostile_name(rng, base_off):
    """-> (bytes placed at base_off, description). Offsets in pointers are absolute."""
    k = rng.choice(["fwd_chain", "back_chain", "cycle", "self", "forward", "beyond", "biglabel", "utf8", "manylabels",
                    "longname", "reserved"])
    if k == "fwd_chain":
        n = rng.choice([3, 50, 130, 900, 1200, 2500, 4000])
        b = b""
        for i in range(n):
            tgt = base_off + 2 * (i + 1)
            if tgt > 0x3FFF:
                break
            b += struct.pack(">H", 0xC000 | tgt)
        return b + _plain_name("x.local."), f"fwd_chain{n}"
    if k == "back_chain":
        # name region: label, then pointers each pointing to the previous pointer; the name starts at the last one
        n = rng.choice([3, 50, 130, 900, 1200, 2500, 4000])
        first = _plain_name("y.local.")
        b = bytearray(first)
        prev = base_off
        for i in range(n):
            here = base_off + len(b)
            if here > 0x3FF0:
                break
            b += struct.pack(">H", 0xC000 | prev)
            prev = here
        return bytes(b), f"back_chain{n}", len(b) - 2
    if k == "cycle":
        a = base_off
        return struct.pack(">HH", 0xC000 | (a + 2), 0xC000 | a), "cycle"
    if k == "self":
        return struct.pack(">H", 0xC000 | base_off), "self"
    if k == "forward":
        return struct.pack(">H", 0xC000 | (base_off + rng.choice([2, 7, 40]))) + bytes(rng.randrange(256) for _ in range(8)), "forward"
    if k == "beyond":
        return struct.pack(">H", 0xC000 | 0x3FFF), "beyond"
    if k == "biglabel":
        n = rng.choice([63, 64, 65, 100, 191])
        return bytes([n]) + b"a" * min(n, 70) + b"\x05local\0", f"label{n}"
    if k == "utf8":
        n = rng.choice([1, 10, 21, 22, 40, 63])
        if rng.random() < 0.4:
            # invalid bytes mixed with valid multi-byte characters: every invalid byte grows to 3 bytes when the name is
            # written again, the valid characters keep their 2..4 bytes (a character count underestimates the result)
            bad = rng.choice([5, 15, 19, 21, 30])
            good = rng.choice(["\u00e9" * rng.choice([1, 4, 10]), "\u20ac" * rng.choice([1, 3, 7]), "\U0001f600" * rng.choice([1, 2, 5])])
            parts = [b"\xff"] * bad + [c.encode() for c in good]
            if rng.random() < 0.5:
                rng.shuffle(parts)
            lab = b"".join(parts)[:63]
            return bytes([len(lab)]) + lab + b"\x05local\0", f"utf8mixed{bad}+{len(good)}"
        return bytes([n]) + b"\xff" * n + b"\x05local\0", f"utf8x{n}"
    if k == "manylabels":
        n = rng.choice([60, 127, 128, 129, 200])
        return b"\x01a" * n + b"\0", f"labels{n}"
    if k == "longname":
        n = rng.choice([4, 5, 8])
        return (b"\x3f" + b"b" * 63) * n + b"\0", f"long{n}"
    return bytes([rng.choice([0x40, 0x80, 0xBF])]) + b"abc\0", "reserved"


def hostile_packet(rng, victim_name):
    """A datagram built around one hostile name, optionally with a legitimate question first (so that a reply is built)."""
    is_query = rng.random() < 0.6
    id_ = rng.randrange(1, 65535)
    legit_q = _plain_name(rng.choice([VT, victim_name])) + struct.pack(">HH", rng.choice([12, 33, 16, 255]),
                                                                      rng.choice([1, 0x8001]))
    with_legit = is_query and rng.random() < 0.6
    body = legit_q if with_legit else b""
    off = 12 + len(body)
    hn = hostile_name(rng, off)
    name_bytes, desc = hn[0], hn[1]
    start_in = hn[2] if len(hn) > 2 else 0
    if start_in:
        # the name proper starts inside the region: put region first as padding of a TXT-ish answer? simplest:
        # region becomes the first question's name area, the hostile question points at its end
        region = name_bytes
        qname = struct.pack(">H", 0xC000 | (off + start_in))
        if is_query:
            pkt = _hdr(id_, 0, (2 if with_legit else 1) + 1, 0) + body + region[:start_in] + region[start_in:] + \
                struct.pack(">HH", 12, 1) + qname + struct.pack(">HH", 12, 1)
        else:
            pkt = _hdr(0, 0x8400, 0, 2) + region + struct.pack(">HHIH", 16, 1, 120, 0) + qname + \
                struct.pack(">HHIH", 16, 1, 120, 0)
        return pkt, desc, is_query
    if is_query:
        nq = 2 if with_legit else 1
        qt = rng.choice([1, 12, 28, 33, 255])
        pkt = _hdr(id_, rng.choice([0, 0, 0x0200]), nq, 0) + body + name_bytes + struct.pack(">HH", qt, rng.choice([1, 0x8001]))
    else:
        t = rng.choice([1, 12, 16, 33, 47, 13])
        rd = {1: b"\x0a\0\0\x05", 12: None, 16: b"\x01a", 33: None, 47: None, 13: b"\x01a\x01b"}[t]
        if rd is None:
            # hostile name inside rdata as well
            inner = hostile_name(rng, 0)[0]
            rd = (b"\0\0\0\0\0\x50" if t == 33 else b"") + inner + (b"\0\x01\x40" if t == 47 else b"")
        pkt = _hdr(0, 0x8400, 0, 1) + name_bytes + struct.pack(">HHIH", t, rng.choice([1, 0x8001]), rng.choice([0, 1, 120, 4500]),
                                                              len(rd)) + rd
    return pkt, desc, is_query


ODD_LABELS = [b"Living Rm.", b".hidden", b"a..b", b"Dr. Smith", b"Acme Co.", b".", b"..", b"tab\there", b"back\\slash",
              b"nul\0byte", b"sp ace", b"caf\xc3\xa9", b"%s", b"{0}", b"_http", b"a" * 63]


def odd_name_packet(rng, legacy):
    """Well-formed datagrams whose names are legal on the wire but awkward as text: labels that contain dots (DNS-SD
    instance names are arbitrary UTF-8: 'Living Rm.'), begin or end with one, hold control characters or format
    directives. Whatever the instance makes of them it has to be able to write back: they come back in the known-answer
    list of its browser's next query and in the question echo of a legacy unicast reply."""
    lab = rng.choice(ODD_LABELS)
    odd = bytes([len(lab)]) + lab + _plain_name(VT)
    k = rng.random()
    if legacy or k < 0.35:
        # a query: an answerable question first (so that a reply with the echoed questions is built), then the odd name
        qt = rng.choice([12, 33, 16, 1, 255])
        return _hdr(rng.randrange(1, 65535), 0, 2, 0) + _plain_name(VT) + struct.pack(">HH", 12, 1) + odd + \
            struct.pack(">HH", qt, 1), "oddq"
    if k < 0.8:
        # a pointer of the browsed type to the odd instance name
        return _hdr(0, 0x8400, 0, 1) + _plain_name(VT) + struct.pack(">HHIH", 12, 1, rng.choice([120, 4500]), len(odd)) + odd, "oddptr"
    # SRV of the odd instance name pointing at an odd host name
    host = bytes([len(lab)]) + lab + b"\x05local\0"
    rd = b"\0\0\0\0\0\x50" + host
    return _hdr(0, 0x8400, 0, 1) + odd + struct.pack(">HHIH", 33, 0x8001, 120, len(rd)) + rd, "oddsrv"


def mutate(data, rng):
    if not data:
        return data
    b = bytearray(data)
    k = rng.random()
    if k < 0.3:
        for _ in range(rng.choice([1, 1, 2, 5, 20])):
            i = rng.randrange(len(b))
            b[i] ^= 1 << rng.randrange(8)
    elif k < 0.45:
        b = b[:rng.randrange(len(b))]
    elif k < 0.6:
        i = rng.randrange(len(b) + 1)
        b[i:i] = bytes(rng.randrange(256) for _ in range(rng.choice([1, 2, 10, 100])))
    elif k < 0.8 and len(b) >= 12:
        off = rng.choice([4, 6, 8, 10])
        struct.pack_into(">H", b, off, rng.choice([0, 1, 2, 3, 255, 65535]))
    elif len(b) > 14:
        i = rng.randrange(12, len(b) - 1)
        struct.pack_into(">H", b, i, rng.choice([0, 1, 0xC00C, 0xC000 | i, 0xFFFF, len(b), 0x3FFF | 0xC000]))
    else:
        b = b + b
    return bytes(b)


def generate(rng, tier):
    v1 = {"type": VT, "name": "Victim._http._tcp.local.", "port": 8080, "server": "victim.local.",
          "addrs": rng.choice([["10.0.0.1"], ["10.0.0.1", "fe80::1"]]), "props": {"p": "1"}}
    h1 = {"type": VT, "name": "Honest._http._tcp.local.", "port": 9090, "server": "honest.local.", "addrs": ["10.0.0.2"],
          "props": {}}
    canary = {"type": CT, "name": "Canary._canary._tcp.local.", "port": 7, "server": "honest.local.", "addrs": ["10.0.0.2"],
              "props": {"c": "1"}}
    layout = rng.choice(["default", "default", "multi"])
    ops = [{"t": 0.0, "op": "host", "h": "V", "ip": "10.0.0.1", "layout": layout},
           {"t": 0.0, "op": "host", "h": "H", "ip": "10.0.0.2", "layout": rng.choice(["default", "multi"])},
           {"t": 0.0, "op": "peer", "p": "X", "ip": "10.0.0.66", "ports": [5353, 5354, 6000]},
           {"t": 0.0, "op": "peer", "p": "C", "ip": "10.0.0.77", "ports": [5353, 5355]},
           {"t": 0.01, "op": "register", "h": "V", "svc": v1},
           {"t": 0.02, "op": "register", "h": "H", "svc": h1},
           {"t": 0.03, "op": "browse", "h": "V", "id": "vb", "types": [VT, CT]},
           {"t": 0.04, "op": "browse", "h": "H", "id": "hb", "types": [VT]}]
    t = 1.2
    n = rng.choice([5, 10, 20, 40, 60] + ([120, 250] if tier == "thorough" else []))
    t_stream0 = t
    lookup_at = t + rng.random() * 2.0
    ops.append({"t": round(lookup_at, 6), "op": "lookup", "h": "V", "type": VT, "name": "Nobody._http._tcp.local.",
                "timeout": rng.choice([200, 1000, 3000])})
    for i in range(n):
        k = rng.random()
        sp = rng.choice([5353, 5353, 5354, 6000])
        dst = None if rng.random() < 0.75 else ["10.0.0.1", 5353]
        if k < 0.2:
            ln = rng.choice([0, 1, 11, 12, 13, 40, 300, 1500, 8966])
            ops.append({"t": round(t, 6), "op": "fuzz", "kind": "random", "len": ln, "src_port": sp, "dst": dst,
                        "s": rng.randrange(1 << 30)})
        elif k < 0.45:
            ops.append({"t": round(t, 6), "op": "fuzz", "kind": "mutate", "src_port": sp, "dst": dst,
                        "s": rng.randrange(1 << 30)})
        elif k < 0.77:
            ops.append({"t": round(t, 6), "op": "fuzz", "kind": "hostile", "src_port": sp, "dst": dst,
                        "s": rng.randrange(1 << 30)})
        elif k < 0.82:
            ops.append({"t": round(t, 6), "op": "fuzz", "kind": "oddname", "src_port": sp, "dst": dst,
                        "s": rng.randrange(1 << 30)})
        elif k < 0.84:
            ops.append({"t": round(t, 6), "op": "fuzz", "kind": "recase", "src_port": 5353, "dst": None,
                        "s": rng.randrange(1 << 30)})
        elif k < 0.9:
            # well-formed truncated query whose known answers cover the victim's records (stale state if kept)
            ops.append({"t": round(t, 6), "op": "fuzz", "kind": "tcpoison", "src_port": 5353, "dst": dst,
                        "s": rng.randrange(1 << 30)})
        else:
            ops.append({"t": round(t, 6), "op": "fuzz", "kind": "oversize", "src_port": sp, "dst": dst,
                        "s": rng.randrange(1 << 30), "i": i})
        t += rng.choice([0.0, 0.0001, 0.001, 0.01, 0.1, 0.4, 1.0]) * rng.random()
    t_end_stream = t + 0.2
    if rng.random() < 0.3:
        # the victim's process is descheduled while the stream arrives: the datagrams reach it in one burst afterwards
        for _ in range(rng.choice([1, 2])):
            ops.append({"t": round(t_stream0 + rng.random() * (t_end_stream - t_stream0), 6), "op": "stall", "h": "V",
                        "dur": rng.choice([0.01, 0.1, 0.45, 1.0])})
    if rng.random() < 0.3:
        # a lookup on the victim that is still waiting when the records it is after arrive - the honest peer registers
        # the service a moment after the lookup started - and a stall of the victim that spans both their arrival and one
        # of the lookup's own deadlines (+200, +600, +1400 ms): both are ready in the iteration the process comes back
        tl = round(t_stream0 + rng.random() * max(0.5, t_end_stream - t_stream0 - 0.2), 6)
        late = {"type": VT, "name": "Late._http._tcp.local.", "port": 7070, "server": "honest.local.", "addrs": ["10.0.0.2"],
                "props": {}}
        ops.append({"t": tl, "op": "register", "h": "H", "svc": late})
        ops.append({"t": round(tl - rng.choice([0.05, 0.2]), 6), "op": "lookup", "h": "V", "type": VT,
                    "name": "Late._http._tcp.local.", "timeout": 3000})
        ops.append({"t": round(tl + rng.choice([0.3, 0.33, 0.36, 0.5, 0.55]), 6), "op": "stall", "h": "V",
                    "dur": rng.choice([0.3, 0.5, 0.9])})
        t_end_stream = max(t_end_stream, tl + 1.8)
    ops.append({"t": round(t_end_stream, 6), "op": "faults_off"})
    tc = t_end_stream + 1.5
    ops.append({"t": round(tc, 6), "op": "send", "p": "C", "src_port": 5355,
                "msg": {"q": [[VT, 12, 0]], "id": 4242}})
    ops.append({"t": round(tc + 0.01, 6), "op": "send", "p": "C", "src_port": 5353,
                "msg": {"q": [["Victim._http._tcp.local.", 16, 0]], "id": 0}})
    # (on its own, after the replies to the other canaries have left: their additional sections carry the SRV record too)
    ops.append({"t": round(tc + 2.2, 6), "op": "send", "p": "X", "src_port": 5353,
                "msg": {"q": [["Victim._http._tcp.local.", 33, 0]], "id": 0}})
    ops.append({"t": round(tc + 0.02, 6), "op": "register", "h": "H", "svc": canary})
    faults = {"max_delay_us": rng.choice([0, 1000, 50000]), "dup_p": rng.choice([0.0, 0.1]),
              "corrupt_p": rng.choice([0.0, 0.05, 0.2])}
    # socket errors reported by the kernel for earlier transmissions (ICMP unreachable, ENOBUFS ...) reach the protocol's
    # error_received between the datagrams
    for _ in range(rng.choice([0, 0, 1, 3])):
        ops.append({"t": round(t_stream0 + rng.random() * (t_end_stream - t_stream0), 6), "op": "sockerr", "h": "V",
                    "errno": rng.choice([111, 105, 101, 90])})
    ops.sort(key=lambda o: o["t"])
    return {"timer_slop_us": rng.choice([0, 0, 1, 50, 300]), "ops": ops, "faults": faults, "end": round(tc + 4.0, 6), "t_canary": round(tc, 6),
            "stream": [round(t_stream0, 6), round(t_end_stream, 6)],
            # the application runs the library with its logger at DEBUG (every datagram is then rendered for the log)
            "debug_log": rng.random() < 0.15}


def execute(scenario, seed, overrides=None):
    out = runner.Outcome()
    w = World(seed, FaultConfig(**scenario.get("faults", {})), overrides,
              timer_slop=scenario.get("timer_slop_us", 0) / 1e6, debug_log=scenario.get("debug_log", False))
    stats = {"hostile_delivered": 0, "oversize_sent": 0, "random": 0, "mutated": 0, "hostile": 0, "deep_chain": 0,
             "utf8_labels": 0, "legacy_port_hostile": 0}
    try:
        drv = Driver(w, scenario)
        w.net.corruptor = mutate
        import random as _r

        def op_fuzz(op):
            rng = _r.Random(op["s"])
            p = w.peers.get("X")
            if p is None:
                return
            kind = op["kind"]
            if kind == "random":
                data = rng.randbytes(op["len"])
                stats["random"] += 1
            elif kind == "mutate":
                cands = [tx.data for tx in w.net.trace if tx.host in ("V", "H")][-30:]
                if not cands:
                    return
                data = mutate(rng.choice(cands), rng)
                stats["mutated"] += 1
            elif kind == "hostile":
                data, desc, is_q = hostile_packet(rng, "Victim._http._tcp.local.")
                stats["hostile"] += 1
                if "chain" in desc and int(desc.split("chain")[1]) >= 900:
                    stats["deep_chain"] += 1
                if desc.startswith("utf8"):
                    stats["utf8_labels"] += 1
                if op["src_port"] != 5353:
                    stats["legacy_port_hostile"] += 1
            elif kind == "oddname":
                data, desc = odd_name_packet(rng, op["src_port"] != 5353)
                stats["odd_names"] = stats.get("odd_names", 0) + 1
            elif kind == "recase":
                # a copy of the announcement the victim is about to receive with a few bits flipped in letters of the
                # owner name (0x20: the letter case) - DNS names are case-insensitive, it is the same record
                ty = "".join(c.upper() if c.isalpha() and rng.random() < 0.4 else c for c in CT)
                if ty == CT:
                    ty = CT.replace("c", "C", 1)
                data = wire.encode(wire.response([wire.RR(ty, wire.T_PTR, rng.choice([120, 4500]), "Canary._canary._tcp.local.")]))
                stats["recased"] = stats.get("recased", 0) + 1
            elif kind == "tcpoison":
                rec = SvcRecords({"type": VT, "name": "Victim._http._tcp.local.", "port": 8080, "server": "victim.local.",
                                  "addrs": ["10.0.0.1"], "props": {"p": "1"}})
                m = wire.query([wire.Q(VT, wire.T_PTR), wire.Q("Victim._http._tcp.local.", wire.T_SRV)],
                               [rec.ptr, rec.srv], tc=True)
                data = wire.encode(m)
                stats["tc_poison"] = stats.get("tc_poison", 0) + 1
            else:
                # oversized but meaningful: would be visible if it were processed
                pad = wire.RR("Pad.local.", wire.T_TXT, 120, b"\xff" + b"p" * 255)
                recs = [wire.RR(VT, wire.T_PTR, 4500, f"Oversize{op['i']}._http._tcp.local.")]
                m = wire.Msg(wire.FLAG_QR | wire.FLAG_AA, 0, [], recs + [wire.RR(f"Pad{j}.local.", wire.T_TXT, 120, b"\xff" + b"p" * 255)
                                                                   for j in range(34)])
                data = wire.encode(m, compress=False)
                if len(data) <= wire.MAX_ABS:
                    data = data + b"\0" * (wire.MAX_ABS + 1 - len(data))
                stats["oversize_sent"] += 1
            if not data:
                return
            dst = tuple(op["dst"]) if op.get("dst") else None
            p.new_context().run(lambda: p.send(data, dst, op["src_port"]))

        def op_faults_off(op):
            f = w.net.faults
            f.corrupt_p = 0.0
            f.drop_p = 0.0

        def op_sockerr(op):
            h = w.hosts.get(op["h"])
            if h is None or h.zc is None or not h.alive:
                return
            for proto in list(h.zc.engine.protocols):
                h.new_context().run(proto.error_received, OSError(op["errno"], "simulated socket error"))
            stats["socket_errors"] = stats.get("socket_errors", 0) + 1

        drv.hooks["sockerr"] = op_sockerr
        drv.hooks["fuzz"] = op_fuzz
        drv.hooks["faults_off"] = op_faults_off

        def on_rx(t, rsock, data, addr, tx_idx, copy):
            if rsock.owner.name == "V" and addr[0] == "10.0.0.66":
                stats["hostile_delivered"] += 1

        w.net.on_rx = on_rx

        async def main():
            drv.schedule_all()
            await w.sleep_until(scenario["end"])

        w.run(main())
        # ---- oracle
        for e in w.loop.exceptions:
            out.add(f"C15.loop-exception.{e['type']}", f"{e['type']} reached the event loop at {e['t'] - w.t0:.6f}: {e['message']} "
                    f"{e['exception'][:160]}", exc=e["type"])
        tc = scenario["t_canary"] + w.t0
        # canary 1: legacy-unicast query answered at once by unicast
        got = [tx for tx in w.net.trace if tx.host == "V" and tx.dst == ("10.0.0.77", 5355) and tx.msg is not None
               and tx.msg.id == 4242 and any(r.type == wire.T_PTR and r.rdata.lower() == "victim._http._tcp.local."
                                             for r in tx.msg.answers)]
        sent1 = any(tx.host == "C" and tx.src[1] == 5355 for tx in w.net.trace)
        sent2 = any(tx.host == "C" and tx.src[1] == 5353 for tx in w.net.trace)
        v_registered = any(e["op"] == "register" and e["host"] == "V" and e["exc"] is None and e["t_done"] is not None
                           for e in w.api_log)
        if sent1 and v_registered and (not got or got[0].t > tc + 1.3):
            out.add("C15.canary-unanswered", "legacy-unicast canary query for the victim's type was not answered within "
                    f"1.3 s (answers: {[round(x.t - tc, 3) for x in got]})")
        # canary 2: ordinary multicast query answered by multicast within 1.3 s. The record counts as delivered in
        # whatever section of a multicast response it travels: when it rides as an additional of another answer the
        # library drops its queued copy (repair D51), and the querier has it all the same (C12's liveness clause
        # reads the same way)
        got2 = [tx for tx in w.net.trace if tx.host == "V" and tx.multicast and tx.msg is not None and tx.msg.is_response
                and tx.t >= tc and any(r.type == wire.T_TXT and r.name.lower() == "victim._http._tcp.local." and r.ttl > 0
                                       for r in tx.msg.answers + tx.msg.additionals)]
        if sent2 and v_registered and (not got2 or got2[0].t > tc + 0.01 + 1.3):
            out.add("C15.canary-mcast-unanswered", "multicast canary TXT query was not answered within 1.3 s "
                    f"({[round(x.t - tc, 3) for x in got2]})")
        # canary 4: a plain query from the former attacker's address is answered like anybody else's
        sent4 = any(tx.host == "X" and tx.t >= tc + 2.2 - 1e-9 for tx in w.net.trace)
        got4 = [tx for tx in w.net.trace if tx.host == "V" and tx.multicast and tx.msg is not None and tx.msg.is_response
                and tx.t >= tc + 2.2 - 1e-9 and any(r.type == wire.T_SRV and r.name.lower() == "victim._http._tcp.local." and r.ttl > 0
                                       for r in tx.msg.answers + tx.msg.additionals)]
        if sent4 and v_registered and (not got4 or got4[0].t > tc + 2.2 + 1.3):
            out.add("C15.canary-from-attacker-address-unanswered", "a well-formed SRV query sent after the stream from the "
                    f"address the hostile datagrams came from was not answered within 1.3 s ({[round(x.t - tc, 3) for x in got4]})")
        # canary 3: announcement of a fresh service reaches the victim's browser
        lst = drv.listeners.get(("V", "vb"))
        adds = [t for (t, k, ty, nm) in (lst.events if lst else []) if k == "add" and nm.lower() == "canary._canary._tcp.local."]
        canary_sent = any(e["op"] == "register" and e["args"].startswith("Canary") and e["exc"] is None for e in w.api_log)
        if lst is not None and canary_sent and (not adds or adds[0] > tc + 0.02 + 2.0):
            out.add("C15.canary-not-added", "the victim's browser did not report the canary service announced after the "
                    f"stream within 2 s (adds at {[round(a - tc, 3) for a in adds]})")
        # oversized datagrams have no effect
        over = [nm for lstn in drv.listeners.values() for (t, k, ty, nm) in lstn.events if nm.startswith("Oversize")]
        if over:
            out.add("C15.oversize-processed", f"a datagram longer than 8966 bytes was processed: browser saw {over[:2]}")
        for lk in drv.lookups:
            e = lk["entry"]
            # time during which the process was descheduled does not count against the library
            stalled = sum(max(0.0, min(b, e["t_done"] or b) - max(a, e["t_call"])) for a, b, hn in drv.stalls if hn == "V")
            if e["t_done"] is None or e["t_done"] - e["t_call"] > lk["timeout"] / 1000.0 + 0.002 + stalled:
                out.add("C15.lookup-overrun", f"lookup with timeout {lk['timeout']} ms returned after "
                        f"{None if e['t_done'] is None else e['t_done'] - e['t_call']}")
        out.digest = w.digest()
        out.interleaving = w.interleaving_digest()
        out.sim_seconds = w.now - w.t0
        out.decisions = w.dec.recorded
        out.stats.update({f"fault_{k}": v for k, v in w.net.fault_counts.items()})
        out.stats.update(stats)
        if scenario.get("debug_log"):
            from sim.world import _FormattingHandler

            out.stats["debug_log_runs"] = 1
        out.nontrivial = stats["hostile_delivered"] >= 5
        out.sample = {"ops": [o for o in scenario["ops"] if o["op"] == "fuzz"][:5], "stream": scenario["stream"],
                      "stats": stats}
    finally:
        w.teardown()
    return out


if __name__ == "__main__":
    import checks.c15 as me

    sys.exit(runner.main(me))
