"""C08 - withdrawn services stay withdrawn: complete goodbyes, no resurrection."""
import sys

from sim import runner, wire
from sim.driver import Driver
from sim.net import FaultConfig
from sim.svc import SvcRecords, gen_services
from sim.world import World

PROPERTY = "C08"
LEVEL = "exploration"
QUICK_BUDGET = 25.0
THOROUGH_BUDGET = 900.0
RULE = ("One real responder with 1..4 registered services (shared/distinct host names, v4/v6), scripted queriers send "
        "QM/QU single- and multi-question queries (port 5353 and legacy ports) so that answers wait in the aggregation "
        "queue, the 1 s protected queue or go out at once; unregister/close lands at a seed-chosen offset "
        "(-50..+1300 ms, 1 ms grid near the queue deadlines) relative to the last query. Non-trivial = at least one "
        "query was delivered to the responder within 1.5 s before the withdrawal and the goodbye sequence was observed.")
ASSUMPTIONS = [
    "unregister/close is issued after async_register_service returned (possibly while its announcements are still going out)",
    "the link, sockets and clock are simulated (see components_stub); asyncio scheduling is real",
]

QTYPES = [wire.T_PTR, wire.T_SRV, wire.T_TXT, wire.T_A, wire.T_AAAA, wire.T_ANY]


def generate(rng, tier):
    nsvc = rng.choice([1, 1, 2, 2, 3, 4])
    hosts = ["hosta.local."] if rng.random() < 0.4 else ["hosta.local.", "hostb.local."]
    svcs = gen_services(rng, nsvc, types=rng.choice([["_http._tcp.local."], ["_http._tcp.local.", "_ipp._tcp.local."]]),
                        hosts=hosts, custom_ttl=rng.random() < 0.3)
    layout = rng.choice(["default", "default", "multi"])
    ops = [{"t": 0.0, "op": "host", "h": "R", "ip": "10.0.0.1", "layout": layout},
           {"t": 0.0, "op": "peer", "p": "Q", "ip": "10.0.0.9", "ports": [5353, 5354]}]
    t = 0.05
    t_regs = []
    for s in svcs:
        ops.append({"t": t, "op": "register", "h": "R", "svc": s})
        t_regs.append(t)
        t += rng.choice([0.0, 0.01, 1.0])
    t_ready = t + 0.35 + 0.45 + 0.3
    base = t_ready + rng.choice([0.0, 0.2, 0.7, 2.0, 35.0, 1300.0])
    victim = rng.randrange(nsvc)
    mode = "close" if rng.random() < 0.25 else "unregister"
    # queries before the withdrawal
    nq = rng.choice([1, 1, 2, 3, 4] + ([6, 10] if tier == "thorough" else []))
    qt = base
    last_q = base
    for _ in range(nq):
        qt += rng.choice([0.0, 0.001, 0.05, 0.2, 0.5, 0.999, 1.0, 1.001]) if _ else 0.0
        last_q = qt
        ops.append(_query_op(rng, qt, svcs, victim))
    k = rng.random()
    if k < 0.35:
        delta = rng.randrange(-50, 1301) / 1000.0
    elif k < 0.7:
        delta = rng.choice([0.0, 0.001, 0.019, 0.02, 0.021, 0.119, 0.12, 0.121, 0.499, 0.5, 0.501, 0.999, 1.0, 1.001,
                            1.019, 1.02, 1.119, 1.12, 1.199, 1.2, 1.201])
    else:
        delta = rng.random() * 0.15
    t_w = max(t_ready, last_q + delta)
    if rng.random() < 0.15:
        # withdrawal while the registration's own announcements (at +0.35, +0.575, +0.8 s) are still going out
        t_w = t_regs[victim] + 0.35 + rng.choice([0.001, 0.05, 0.2, 0.224, 0.225, 0.226, 0.4, 0.449, 0.45, 0.451])
    stale = False
    if mode == "unregister" and rng.random() < 0.2:
        # the service was updated through a new ServiceInfo object before; some applications then unregister through
        # the object they registered first
        v2 = dict(svcs[victim])
        v2["props"] = {"v": "2"}
        v2["port"] = svcs[victim]["port"] + 1
        t_upd = round(max(t_ready, t_w - rng.choice([0.05, 0.3, 1.0, 2.5])), 6)
        if t_upd < t_w:
            # ... or keep one object, change it in place and call update with it again
            inplace = rng.random() < 0.4
            ops.append({"t": t_upd, "op": "update", "h": "R", "svc": v2, "mutate": inplace})
            stale = not inplace and rng.random() < 0.7
    if mode == "close":
        # (a third of these withdraw everything through async_unregister_all_services and keep the instance: the same
        # goodbye, but the multicast queues live on)
        ops.append({"t": t_w, "op": "unregister_all" if rng.random() < 0.35 else "close", "h": "R"})
        if len(svcs) > 1 and t_ready < t_w - 0.3 and rng.random() < 0.3:
            # components withdraw their own services shortly before the application closes the instance: the shutdown
            # has to let every goodbye sequence that is going out finish (unregistering *after* the close was requested
            # is C17's subject)
            for k2 in rng.sample(range(len(svcs)), rng.choice([1, min(2, len(svcs))])):
                ops.append({"t": round(t_w + rng.choice([-0.2, -0.13, -0.05, -0.001]), 6),
                            "op": "unregister", "h": "R", "name": svcs[k2]["name"]})
    else:
        ops.append({"t": t_w, "op": "unregister", "h": "R", "name": svcs[victim]["name"], "stale": stale})
        if rng.random() < 0.2:
            # ... and the instance is closed while those goodbyes are still going out
            ops.append({"t": round(t_w + rng.choice([0.0, 0.001, 0.05, 0.124, 0.125, 0.126, 0.2, 0.26, 0.6]), 6),
                        "op": "close", "h": "R"})
    # queries after the withdrawal started
    for _ in range(rng.choice([0, 1, 2])):
        ops.append(_query_op(rng, t_w + rng.choice([0.0, 0.05, 0.13, 0.26, 0.4, 1.0, 2.0]), svcs, victim))
    reregister = None
    if any(o["op"] in ("close", "unregister_all") for o in ops):
        pass  # nothing is registered on an instance that is being closed
    elif mode == "unregister" and rng.random() < 0.2:
        reregister = t_w + rng.choice([0.3, 0.6, 1.5])
        ops.append({"t": reregister, "op": "register", "h": "R", "svc": svcs[victim]})
    elif mode == "unregister" and rng.random() < 0.1:
        # registered again at once, without probing (cooperating_responders): the goodbyes of the unregistration are
        # still going out
        reregister = round(t_w + rng.choice([0.02, 0.1, 0.13, 0.2]), 6)
        ops.append({"t": reregister, "op": "register", "h": "R", "svc": svcs[victim], "cooperating": True})
    if rng.random() < 0.3:
        # the responder's process is descheduled for a while: queries pile up in its socket, its timers fire late
        for _ in range(rng.choice([1, 1, 2])):
            ops.append({"t": round(max(t_ready, rng.choice([last_q, t_w]) + rng.choice([-0.3, -0.05, 0.0, 0.001, 0.1, 0.2, 0.4])), 6),
                        "op": "stall", "h": "R", "dur": rng.choice([0.005, 0.05, 0.13, 0.3, 0.6, 1.1])})
    ops.sort(key=lambda o: o["t"])
    faults = {"max_delay_us": rng.choice([0, 1000, 20000, 100000]), "loop_delay_us": rng.choice([0, 100, 1000]),
              "dup_p": rng.choice([0.0, 0.0, 0.1]), "b2b_p": rng.choice([0.0, 0.0, 0.1])}
    return {"timer_slop_us": rng.choice([0, 0, 1, 50, 300]), "ops": ops, "faults": faults, "victim": svcs[victim]["name"], "mode": mode, "t_w": t_w,
            "end": t_w + 4.0, "svcs": svcs}


def _query_op(rng, t, svcs, victim):
    qs = []
    for _ in range(rng.choice([1, 1, 1, 2, 3])):
        s = svcs[victim] if rng.random() < 0.7 else rng.choice(svcs)
        qt = rng.choice(QTYPES)
        if qt in (wire.T_PTR, wire.T_ANY) and rng.random() < 0.8:
            name = s["type"]
            qt = wire.T_PTR
        elif qt in (wire.T_A, wire.T_AAAA):
            name = s["server"]
        else:
            name = s["name"]
            if qt == wire.T_PTR:
                qt = wire.T_SRV
        qs.append([name, qt, int(rng.random() < 0.25)])
    src_port = 5353 if rng.random() < 0.85 else 5354
    return {"t": t, "op": "send", "p": "Q", "src_port": src_port, "msg": {"q": qs, "id": rng.randrange(1, 65535)}}


def execute(scenario, seed, overrides=None):
    out = runner.Outcome()
    w = World(seed, FaultConfig(**scenario.get("faults", {})), overrides,
              timer_slop=scenario.get("timer_slop_us", 0) / 1e6)
    try:
        drv = Driver(w, scenario)

        async def main():
            drv.schedule_all()
            await w.sleep_until(scenario["end"])

        w.run(main())
        _oracle(w, drv, scenario, out)
        out.digest = w.digest()
        out.interleaving = w.interleaving_digest()
        out.sim_seconds = w.now - w.t0
        out.decisions = w.dec.recorded
        out.stats.update({f"fault_{k}": v for k, v in w.net.fault_counts.items()})
        out.stats["tx"] = len(w.net.trace)
        out.stats["deliveries"] = w.net.deliveries
        out.stats["jitter_draws"] = w.jitter_draws
    finally:
        w.teardown()
    return out


def _oracle(w, drv, sc, out):
    if w.loop.exceptions:
        out.add("C08.loop-exception", f"exception reached the loop handler: {w.loop.exceptions[0]}")
    svcs = {s["name"].lower(): s for s in sc["svcs"]}
    # withdrawal events: (t_call, mode, [service names withdrawn], shared-host info at call time)
    registered = {}  # name.lower() -> svc, by API return
    events = []
    for i, op, entry in sorted(drv.op_log, key=lambda x: x[0]):
        pass
    # reconstruct registry timeline from api log (register returns => registered)
    timeline = []
    for e in w.api_log:
        if e["op"] == "register" and e["exc"] is None and e["t_done"] is not None:
            timeline.append((e["t_done"], "reg", e["args"]))
        elif e["op"] == "update" and e["exc"] is None:
            timeline.append((e["t_call"], "upd", e["svc"]))
        elif e["op"] == "unregister":
            timeline.append((e["t_call"], "unreg", e["args"]))
        elif e["op"] in ("close", "unregister_all"):
            timeline.append((e["t_call"], "close", None))
    timeline.sort(key=lambda x: x[0])
    reg = {}
    withdrawals = []
    for t, kind, name in timeline:
        if kind == "upd":
            if name["name"].lower() in reg:
                reg[name["name"].lower()] = name
        elif kind == "reg":
            reg[name.lower()] = svcs[name.lower()]
        elif kind == "unreg":
            s = reg.pop(name.lower(), None)
            if s is None:
                continue
            shared = any(o.get("server", o["name"]).lower() == s.get("server", s["name"]).lower() for o in reg.values())
            withdrawals.append({"t": t, "mode": "unregister", "svcs": [s], "shared": {s["name"].lower(): shared}})
        elif kind == "close":
            # a registration that returned in the very instant close was called may or may not have been in the registry
            # when the goodbye packet was built (and was never announced if it was not): no expectation either way
            tied = {n.lower() for t2, k2, n in timeline if k2 == "reg" and abs(t2 - t) < 2e-6}
            live = {n: s for n, s in reg.items() if n not in tied}
            if live:
                withdrawals.append({"t": t, "mode": "close", "svcs": list(live.values()),
                                    "shared": {n: False for n in live}})
            reg = {}
    rtrace = [tx for tx in w.net.trace if tx.host == "R"]
    # deliveries of queries to R shortly before the withdrawal (non-triviality)
    q_before = 0
    for wd in withdrawals:
        for s in wd["svcs"]:
            recs = SvcRecords(s)
            must = [recs.ptr, recs.srv, recs.txt]
            if not wd["shared"][s["name"].lower()]:
                must += recs.addr_and_nsec()
            must_ids = {r.ident() for r in must}
            # goodbye transmissions: multicast from R at/after the call carrying TTL-0 PTR of this service
            gb = []
            for tx in rtrace:
                if tx.t + 1e-9 < wd["t"] or not tx.multicast or tx.msg is None or not tx.msg.is_response:
                    continue
                zero = {r.ident() for r in tx.msg.records() if r.ttl == 0}
                if recs.ptr.ident() in zero:
                    gb.append((tx, zero))
            # a later re-registration of the same name closes the window
            t_rereg = min([t for t, k, n in timeline if t >= wd["t"] and (t > wd["t"] or k == "reg") and
                           ((k == "reg" and n.lower() == s["name"].lower()) or
                            (k == "upd" and n["name"].lower() == s["name"].lower()))], default=None)
            per_sock = {}
            for tx, zero in gb:
                per_sock.setdefault(tx.sock, []).append((tx, zero))
            if t_rereg is not None and all(tx.t <= t_rereg + 1e-6 for tx, _ in gb) and \
                    (not gb or min(len(v) for v in per_sock.values()) < 3):
                # registered again before the goodbyes were through: the remaining ones would withdraw the new registration
                # and are not owed (nor is anything judged "after the third goodbye")
                continue
            if not gb:
                out.add("C08.goodbye-missing", f"no goodbye for {s['name']} after {wd['mode']} at {w.rel(wd['t']):.3f}",
                        mode=wd["mode"])
                continue
            complete = []
            for sock, lst in per_sock.items():
                # (another goodbye sequence for the same name may be interleaved - an unregister through a ServiceInfo
                # that is no longer the registered one - so complete goodbyes are counted, not the first three)
                full = [tx for tx, zero in lst if must_ids <= zero]
                if len(lst) < 3:
                    out.add("C08.goodbye-count", f"{len(lst)} goodbye transmissions for {s['name']} on {sock} after "
                            f"{wd['mode']} at {w.rel(wd['t']):.3f}, expected 3", mode=wd["mode"], n=len(lst))
                elif len(full) < 3:
                    tx, zero = next((tx, zero) for tx, zero in lst if not must_ids <= zero)
                    out.add("C08.goodbye-incomplete", f"goodbye at {w.rel(tx.t):.3f} for {s['name']} lacks TTL-0 copies "
                            f"of {sorted(must_ids - zero)[:3]}; {len(full)} of {len(lst)} goodbyes on {sock} are complete",
                            mode=wd["mode"])
                else:
                    complete.append(full[2].t)
            if len(complete) < len(per_sock):
                continue
            t_g = max(complete)
            out.nontrivial = True
            for tx in rtrace:
                if tx.t <= t_g or tx.msg is None:
                    continue
                if t_rereg is not None and tx.t >= t_rereg - 1e-9:
                    break
                if not tx.msg.is_response:
                    # probes of a re-registration carry the proposed PTR in the authority section
                    continue
                for r in tx.msg.records():
                    # "those records" are the service's records, whatever version of them a queued answer was built
                    # from: everything under the instance name, and every pointer to it
                    nm = s["name"].lower()
                    by_name = (r.type in (wire.T_SRV, wire.T_TXT) and r.name.lower() == nm) or \
                              (r.type == wire.T_PTR and isinstance(r.rdata, str) and r.rdata.lower() == nm)
                    if r.ttl > 0 and (r.ident() in must_ids or by_name):
                        queued = _was_queued_before(w, wd["t"], tx)
                        out.add("C08.positive-after-goodbye",
                                f"{s['name']}: {r!r} sent {'multicast' if tx.multicast else 'unicast'} at "
                                f"{w.rel(tx.t):.3f}, {1000 * (tx.t - t_g):.0f} ms after the third goodbye "
                                f"({w.rel(t_g):.3f}); {wd['mode']} was called at {w.rel(wd['t']):.3f}",
                                mode=wd["mode"], multicast=tx.multicast, queued_before_withdraw=queued)
                        break
                else:
                    continue
                break
    # a goodbye never follows the new registration of the same name: it would withdraw it
    t_first_close = min([t2 for t2, k2, n2 in timeline if k2 == "close"], default=float("inf"))
    for t_reg, kind, name in timeline:
        if kind != "reg" or t_reg >= t_first_close or not any(k2 == "unreg" and n2.lower() == name.lower() and t2 < t_reg for t2, k2, n2 in timeline
                                    if k2 == "unreg"):
            continue
        t_next = min([t2 for t2, k2, n2 in timeline if t2 > t_reg and k2 in ("unreg", "close") and
                      (k2 == "close" or n2.lower() == name.lower())], default=float("inf"))
        ptr = SvcRecords(svcs[name.lower()]).ptr.ident()
        for tx in rtrace:
            if tx.t <= t_reg + 1e-9 or tx.t >= t_next or tx.msg is None or not tx.msg.is_response:
                continue
            if any(r.ttl == 0 and r.ident() == ptr for r in tx.msg.records()):
                out.add("C08.goodbye-after-reregistration", f"{name}: registered again at {w.rel(t_reg):.3f} but a goodbye for "
                        f"it was multicast at {w.rel(tx.t):.3f}")
                break
    out.sample = {"ops": sc["ops"][2:8], "withdrawals": [(round(w.rel(x["t"]), 3), x["mode"]) for x in withdrawals],
                  "tx": len(rtrace)}


def _was_queued_before(w, t_withdraw, tx):
    """True when a query that could have queued this answer was delivered to R before the withdrawal call."""
    for rec in reversed(w.events):
        if rec[1] == "rx" and rec[3].startswith("R.") and float(rec[0]) <= t_withdraw and float(rec[0]) >= tx.t - 1.3:
            return True
    return False


if __name__ == "__main__":
    import checks.c08 as me

    sys.exit(runner.main(me))
