"""C11 - replies are routed and formatted as RFC 6762 sections 5.4, 6 and 6.7 require."""
import sys

from checks.c03 import ModelRegistry, nsec_key
from sim import runner, wire
from sim.driver import Driver
from sim.models import HostModel
from sim.net import AF_INET6, FaultConfig
from sim.svc import ENUM, SvcRecords, gen_services
from sim.world import World

PROPERTY = "C11"
LEVEL = "exploration"
QUICK_BUDGET = 25.0
THOROUGH_BUDGET = 900.0
RULE = ("One real responder (single- or multi-socket, IPv4 or dual stack) with 1..3 services; scripted queriers at "
        "arbitrary source addresses and ports (5353 and legacy), any id, 1..4 questions with independent QU/QM bits, with "
        "or without an authority section (probes), sent by multicast or by unicast to the responder, arriving at ages of "
        "the responder's own records below/at/above a quarter of their TTL (30 s for host records, 1125 s for PTR/TXT; "
        "ages are made by virtual waiting and by making the responder multicast again). Every transmission of the "
        "responder is decoded by the independent codec: expected unicast set, expected immediate-multicast set, "
        "destination, sending socket, id/question echo, flush bits, header of every multicast response. Non-trivial = at "
        "least two queries were answered, one of them with a QU question or from a legacy port.")
ASSUMPTIONS = [
    "'seen multicast' is first judged from a log of the multicast responses that reached the responder's sockets (own "
    "transmissions loop back), with the quarter taken of the record's own TTL; where the library's notion - its cache "
    "entry for the record, fed with exactly the datagrams it accepted - leads to other expectations and the library "
    "follows those, the deviation is reported as the known sighting-proxy finding with its cause",
    "aggregated / one-second-protected multicast answers are C12's subject: here only the immediate classes are required",
]


def generate(rng, tier):
    n = rng.choice([1, 2, 3])
    svcs = gen_services(rng, n, types=["_http._tcp.local.", "_ipp._tcp.local."][:rng.choice([1, 2])],
                        hosts=["hostr.local."], custom_ttl=rng.random() < 0.3)
    if rng.random() < 0.15:
        for s_ in svcs:
            s_["other_ttl"] = rng.choice([60, 300])  # PTR/TXT below the 1125 s floor that caches apply to pointers
    dual = rng.random() < 0.3
    layout = rng.choice(["default", "multi", "multi"]) if not dual else rng.choice(["multi", "multi", "default"])
    ops = [{"t": 0.0, "op": "host", "h": "R", "ip": "10.0.0.1", "layout": layout, "ip6": "fe80::1" if dual else None},
           {"t": 0.0, "op": "peer", "p": "Q1", "ip": "10.0.0.9", "ports": [5353, 5354, 40001]},
           {"t": 0.0, "op": "peer", "p": "Q2", "ip": "10.0.0.10", "ports": [5353, 6000]},
           {"t": 0.0, "op": "peer", "p": "Q3", "ip": "10.0.0.11", "ports": [5353, 5354]}]
    if dual:
        ops.append({"t": 0.0, "op": "peer", "p": "Q6", "ip": "fe80::9", "ports": [5353, 5354]})
    t = 0.02
    for s in svcs:
        ops.append({"t": round(t, 3), "op": "register", "h": "R", "svc": s})
        t += 0.01
    t = 1.5
    qid = 1
    for _ in range(rng.choice([2, 4, 6, 9] + ([14, 20] if tier == "thorough" else []))):
        t += rng.choice([0.0, 0.3, 1.3, 2.0, 29.0, 30.0, 31.0, 200.0, 1124.0, 1125.0, 1126.0]) * rng.choice([1, 1, rng.random()])
        peer = rng.choice(["Q1", "Q1", "Q2"] + (["Q6"] * 2 if dual else []))
        ports = {"Q1": [5353, 5353, 5354, 40001], "Q2": [5353, 6000], "Q6": [5353, 5354]}[peer]
        sp = rng.choice(ports)
        qs = []
        probe_for = None
        for _q in range(rng.choice([1, 1, 2, 3, 4])):
            s = rng.choice(svcs)
            r = SvcRecords(s)
            qn, qt = rng.choice([(s["type"], 12), (s["type"], 12), (s["name"], 33), (s["name"], 16), (r.server, 1),
                                 (r.server, 28), (s["name"], 255), (ENUM, 12), ("nobody." + s["type"], 33)])
            qs.append([qn, qt, int(rng.random() < 0.45)])
        if rng.random() < 0.08:
            # a question for the root name rides along (a resolver probing for its search domain, say)
            qs.insert(rng.randrange(len(qs) + 1), [".", rng.choice([2, 6, 1]), 0])
        msg = {"q": qs, "id": qid}
        if rng.random() < 0.2:
            s = rng.choice(svcs)
            msg["ns"] = [SvcRecords(s).ptr.to_json()]
            msg["q"] = [[s["type"], 12, int(rng.random() < 0.6)]] + (qs[:1] if rng.random() < 0.3 else [])
        if rng.random() < 0.15:
            s = rng.choice(svcs)
            r = SvcRecords(s)
            k = rng.choice([r.ptr, r.srv, r.txt])
            msg["an"] = [wire.RR(k.name, k.type, rng.choice([k.ttl, k.ttl // 2 + 1, k.ttl // 2, 1]), k.rdata).to_json()]
        op = {"t": round(t + 0.0000005 + qid * 0.000003, 7), "op": "send", "p": peer, "src_port": sp, "msg": msg}
        if rng.random() < 0.25:
            op["dst"] = ["fe80::1" if peer == "Q6" else "10.0.0.1", 5353]
        ops.append(op)
        if sp != 5353 and rng.random() < 0.2:
            # the mDNS daemon of the same machine (port 5353) sent the first packet of a truncated query just before:
            # the responder holds it for continuation packets; the one-shot query is somebody else's
            s = rng.choice(svcs)
            r = SvcRecords(s)
            # (a machine of its own, so that no other generated query from port 5353 continues that train)
            op["p"], op["src_port"] = "Q3", 5354
            op.pop("dst", None)
            ops.append({"t": round(op["t"] - rng.choice([0.05, 0.2, 0.35]), 7), "op": "send", "p": "Q3", "src_port": 5353,
                        "msg": {"q": [[rng.choice([s["type"], "_other._tcp.local."]), 12, 0]], "id": 0, "tc": 1,
                                "an": [r.ptr.to_json()] if rng.random() < 0.5 else []}})
        if sp != 5353 and rng.random() < 0.35:
            # the same one-shot query (same bytes, same id) from another legacy client - or retransmitted by this one -
            # shortly afterwards
            op.pop("dst", None)
            twin = dict(op)
            other = rng.choice([("Q1", 5354), ("Q1", 40001), ("Q2", 6000)])
            if rng.random() < 0.25:
                other = (peer, sp)
            twin["p"], twin["src_port"] = other
            if "dst" in twin and other[0] == "Q6":
                twin.pop("dst")
            twin["t"] = round(op["t"] + rng.choice([0.0, 0.005, 0.3, 0.999, 1.001]) + 0.0000011, 7)
            ops.append(twin)
        qid += 1
    ops.sort(key=lambda o: o["t"])
    faults = {"max_delay_us": rng.choice([0, 1000, 50000]), "loop_delay_us": rng.choice([0, 200, 1000]),
              "dup_p": rng.choice([0.0, 0.1]), "grid_p": 0.0}
    return {"timer_slop_us": rng.choice([0, 0, 0.1]), "ops": ops, "faults": faults, "end": round(t + 3.0, 3), "svcs": svcs}


def execute(scenario, seed, overrides=None):
    out = runner.Outcome()
    w = World(seed, FaultConfig(**scenario.get("faults", {})), overrides,
              timer_slop=scenario.get("timer_slop_us", 0) / 1e6)
    stats = {"queries": 0, "answered": 0, "legacy": 0, "qu_unicast_only": 0, "qu_multicast_instead": 0, "probes": 0,
             "unicast_dst_queries": 0, "mcast_responses_checked": 0, "v6_queries": 0}
    try:
        drv = Driver(w, scenario)
        host_op = next((o for o in scenario["ops"] if o["op"] == "host" and o.get("h") == "R"), {})
        # InterfaceChoice.Default with IPVersion.All: one AF_INET6 socket, V6ONLY off, member of both groups
        dual_default = host_op.get("layout", "default") == "default" and bool(host_op.get("ip6"))
        reg = ModelRegistry()
        hm = {}
        expect = []
        sight = {}  # scope-blind identity -> time (ms) of the last multicast sighting at the responder
        flush_marks = {}

        def on_rx(t, rsock, data, addr, tx_idx, copy):
            if rsock.owner.name != "R":
                return
            if "R" not in hm:
                hm["R"] = HostModel(w.hosts["R"].start_time)
            m = hm["R"]
            # model registry: a registration takes effect when the API call returned
            for e in w.api_log:
                if e["op"] == "register" and e["t_done"] is not None and e["exc"] is None and not e.get("_c11"):
                    e["_c11"] = True
                    reg.register(e["svc"])
            # the statement's own notion of "seen multicast": every multicast response that reached one of the
            # responder's sockets (its own looped-back ones included), whatever the duplicate guard or the cache made of it
            if w.net.trace[tx_idx].multicast and len(data) <= wire.MAX_ABS:
                m2 = wire.try_decode(data)
                if m2 is not None and m2.is_response:
                    for r2 in m2.records():
                        if r2.ttl > 0:
                            sight[r2.ident()] = t * 1000.0
            msg, eff = m.on_rx(t, rsock.label, data, v6sock=rsock.family == AF_INET6, src=addr)
            if eff is not None:
                for i2 in eff.flushed:
                    flush_marks[i2] = t * 1000.0
            if msg is None or msg.is_response or addr[0].replace("::ffff:", "") in ("10.0.0.1", "fe80::1"):
                return
            if msg.tc:
                return
            t_ms = t * 1000.0
            src = (addr[0].replace("::ffff:", ""), addr[1])
            legacy = src[1] != 5353
            probe = bool(msg.authorities)
            known = {} if probe else {r.ident(): r.ttl for r in msg.answers}
            def st_cache(r):
                # the library's notion: its cache entry for the record
                e = m.cache.e.get(r.ident())
                recent = e is not None and e.recent(t_ms)
                last_sec = e is not None and t_ms - e.created < 1000.0
                return recent, last_sec

            def st_seen(r):
                # the statement's notion: the last multicast sighting, a quarter of the record's own TTL
                last = sight.get(r.ident())
                return (last is not None and t_ms - last < 250.0 * r.ttl), (last is not None and t_ms - last < 1000.0)

            def why(r):
                e = m.cache.e.get(r.ident())
                last = sight.get(r.ident())
                if r.type == wire.T_AAAA and rsock.family == AF_INET6 or (e is None and r.type == wire.T_AAAA and last is not None
                                                                         and any(s_.family == AF_INET6 for s_ in w.net.sockets if s_.owner.name == "R")):
                    return "aaaa-scope"
                if e is None:
                    return "sighting-erased" if last is not None else "none"
                if last is None or e.created > last + 0.5:
                    return "flush-mark" if flush_marks.get(r.ident()) == e.created else "unicast-sighting"
                if e.created < last - 0.5:
                    return "sighting-swallowed-by-duplicate-guard"
                if e.ttl != r.ttl:
                    return "cached-ttl-differs"
                return "boundary"

            causes = set()
            allq = msg.questions
            UMN = []
            for st in (st_seen, st_cache):
                U, M, N = {}, {}, {}  # unicast, immediate multicast, must-not-be-immediate-multicast (unicast only)
                _classify(reg, allq, known, legacy, probe, st, U, M, N)
                UMN.append((U, M, N))
            (U, M, N), alt = UMN
            if [sorted(map(repr, x)) for x in UMN[0]] == [sorted(map(repr, x)) for x in alt]:
                alt = None
            else:
                for q in allq:
                    a_, b_ = reg.answers(q)
                    for r in a_ + b_:
                        if st_seen(r) != st_cache(r):
                            causes.add(why(r))
            stats["queries"] += 1
            stats["legacy"] += int(legacy)
            stats["probes"] += int(probe)
            stats["v6_queries"] += int(":" in src[0])
            stats["unicast_dst_queries"] += int(not rsock.joined or rsock.bind_ip != "")
            expect.append({"t": t, "src": src, "sock": rsock.label, "U": U, "M": M, "N": N, "legacy": legacy, "dd": dual_default,
                           "probe": probe, "id": msg.id, "q": msg.questions, "opt_nsec": True, "alt": alt,
                           "causes": sorted(causes)})

        w.net.on_rx = on_rx
        orig_host = drv.op_host

        def op_host(op):
            orig_host(op)
            w.hosts[op["h"]].start_time = w.now

        drv.op_host = op_host

        async def main():
            drv.schedule_all()
            await w.sleep_until(scenario["end"])

        w.run(main())
        _oracle(w, expect, stats, out)
        for e in w.loop.exceptions:
            out.add("C11.loop-exception", f"exception reached the loop handler: {e}")
            break
        out.digest = w.digest()
        out.interleaving = w.interleaving_digest()
        out.sim_seconds = w.now - w.t0
        out.decisions = w.dec.recorded
        out.stats.update({f"fault_{k}": v for k, v in w.net.fault_counts.items()})
        out.stats.update(stats)
        out.nontrivial = stats["answered"] >= 2 and (stats["legacy"] + stats["qu_unicast_only"] + stats["qu_multicast_instead"]) >= 1
        out.sample = {"ops": [o for o in scenario["ops"] if o["op"] == "send"][:4], "stats": {k: v for k, v in stats.items() if v}}
    finally:
        w.teardown()
    return out


def _classify(reg, allq, known, legacy, probe, st, U, M, N):
    for q in allq:
        req, opt = reg.answers(q)
        ans = []
        for r in req + opt:
            kt = known.get(r.ident())
            if kt is not None and kt > r.ttl / 2:
                continue
            ans.append(r)
        for r in ans:
            recent, last_sec = st(r)
            key = r.ident()
            if not legacy and q.qu:
                if probe:
                    U[key] = r
                    if not recent:
                        M[key] = r
                elif recent:
                    U[key] = r
                    N[key] = r
                else:
                    M[key] = r
                continue
            if legacy:
                U[key] = r
            if probe:
                M[key] = r
            elif last_sec:
                pass
            elif len(allq) == 1 and q.type in (wire.T_SRV, wire.T_A, wire.T_AAAA, wire.T_NSEC):
                M[key] = r
    for k in list(N):
        if k in M:
            del N[k]


def _key(r):
    return nsec_key(r)[:2] if r.type == wire.T_NSEC else r.ident()


def _oracle(w, expect, stats, out):
    t0 = w.t0
    fam = {s.label: s.family for s in w.net.sockets}
    rtx = [tx for tx in w.net.trace if tx.host == "R"]
    by_t = {}
    for tx in rtx:
        by_t.setdefault(tx.t, []).append(tx)
    # ---- every multicast response: header and flush bits, family consistency
    for tx in rtx:
        v6dst = ":" in tx.dst[0]
        if (fam.get(tx.sock) == AF_INET6) != v6dst and not (fam.get(tx.sock) == AF_INET6 and not v6dst and not tx.multicast):
            out.add("C11.family-mismatch", f"datagram to {tx.dst} sent from socket {tx.sock}")
        if tx.msg is None:
            out.add("C11.undecodable", f"transmission at {tx.t - t0:.6f} does not parse strictly")
            continue
        m = tx.msg
        if tx.multicast and m.is_response:
            stats["mcast_responses_checked"] += 1
            if m.id != 0 or (m.flags & 0x8400) != 0x8400 or m.questions or m.tc:
                out.add("C11.multicast-header", f"multicast response at {tx.t - t0:.6f}: id={m.id} flags={m.flags:#06x} "
                        f"questions={len(m.questions)}")
            for r in m.records():
                want = r.type != wire.T_PTR
                if r.flush != want:
                    out.add("C11.flush-bit", f"multicast response at {tx.t - t0:.6f}: {r!r} has flush={r.flush}")
                    break
    # ---- per query: first against the statement's notion of "seen multicast"; where the library's notion (its cache
    # entry) leads to other expectations and the library follows those, that is the known sighting-proxy finding
    for ex in expect:
        first = _Sink()
        _judge(w, expect, ex, by_t, stats, first, False)
        if not first.items:
            continue
        if ex.get("alt") is not None:
            second = _Sink()
            _judge(w, expect, ex, by_t, stats, second, True)
            if not second.items:
                stats["sighting_proxy_followed"] = stats.get("sighting_proxy_followed", 0) + 1
                if ex["causes"] and set(ex["causes"]) == {"boundary"}:
                    # the copies of one multicast sighting reach the sockets of the responder within the link's jitter
                    # of each other; the entry and the log name different copies of it (less than 0.5 ms apart) and
                    # the quarter ends between them: which copy counts is not something the statement settles
                    stats["sighting_boundary_ties"] = stats.get("sighting_boundary_ties", 0) + 1
                    continue
                for cause in ex["causes"] or ["unclassified"]:
                    out.add("C11.sighting-proxy", f"{first.items[0][1]} - the library's answer is the one that follows from "
                            f"its cache entry instead of the multicast sightings ({cause})", cause=cause)
                continue
            first = second
        for clause, detail, sig in first.items:
            out.add(clause, detail, **sig)


class _Sink:
    def __init__(self):
        self.items = []

    def add(self, clause, detail, **sig):
        self.items.append((clause, detail, sig))


def _judge(w, expect, ex, by_t, stats, out, alt):
    """Judge one query against the expected sets - those of the statement's notion of 'seen multicast' (alt=False) or
    those of the library's notion, its cache entry (alt=True)."""
    t0 = w.t0
    count = not alt
    sets = ex["alt"] if alt else (ex["U"], ex["M"], ex["N"])
    t = ex["t"]
    txs = by_t.get(t, [])
    uni = [tx for tx in txs if not tx.multicast and tx.msg is not None and tx.msg.is_response and tx.dst == ex["src"]]
    # several legacy queries of one client delivered in the same instant: their replies echo the id, attribute by it
    same = [e2 for e2 in expect if e2["t"] == t and e2["src"] == ex["src"] and e2["legacy"] and e2["id"] != ex["id"]]
    if ex["legacy"] and same and any(tx.msg.id == ex["id"] for tx in uni):
        uni = [tx for tx in uni if tx.msg.id == ex["id"]]
    elif ex["legacy"] and same:
        uni = [tx for tx in uni if tx.msg.id not in {e2["id"] for e2 in same}]
    mc = [tx for tx in txs if tx.multicast and tx.msg is not None and tx.msg.is_response]
    U, M, N = sets
    qd = f"query id={ex['id']} {ex['q']} from {ex['src']} at {t - t0:.6f} ({'probe' if ex['probe'] else 'query'})"
    got_u = {}
    for tx in uni:
        for r in tx.msg.answers:
            got_u[_key(r)] = r
    wantU = {_key(r): r for r in U.values()}
    # replies to port-5353 queries carry id 0: when one source has several queries delivered in the same instant the
    # unicast replies are judged against all of them together
    for e2 in expect:
        if e2 is not ex and e2["t"] == t and e2["src"] == ex["src"] and not e2["legacy"] and not ex["legacy"]:
            wantU.update({_key(r): r for r in (e2["alt"][0] if alt and e2.get("alt") else e2["U"]).values()})
    optional = {k for k, r in wantU.items() if r.type == wire.T_NSEC}
    if wantU or got_u:
        stats["answered"] += int(count)
    missing = [r for k, r in wantU.items() if k not in got_u and k not in optional]
    extra = [r for k, r in got_u.items() if k not in wantU]
    if missing:
        out.add("C11.unicast-missing", f"{qd}: expected unicast reply with {missing[:3]}; unicast sent: "
                f"{[(tx.dst, tx.msg.answers[:3]) for tx in uni]}", legacy=ex["legacy"], probe=ex["probe"])
    if extra:
        out.add("C11.unicast-extra", f"{qd}: unicast reply contains {extra[:3]} which should not go by unicast "
                f"(multicast-now set {list(M.values())[:3]})", legacy=ex["legacy"], probe=ex["probe"])
    for tx in uni:
        # (another query of the same source delivered in the same instant, on another socket: the reply that echoes
        # its id is its reply, sent from its socket)
        owner = next((e2 for e2 in expect if e2 is not ex and e2["t"] == t and e2["src"] == ex["src"] and
                      e2["id"] == tx.msg.id and e2["id"] != ex["id"]), ex)
        if tx.sock != owner["sock"]:
            out.add("C11.unicast-wrong-socket", f"{qd}: received on {owner['sock']} but unicast reply sent from {tx.sock}")
        if any(r.flush for r in tx.msg.records()):
            out.add("C11.unicast-flush-bit", f"{qd}: unicast reply carries a cache-flush bit")
        if ex["legacy"]:
            if tx.msg.id != ex["id"]:
                out.add("C11.legacy-id", f"{qd}: legacy unicast reply has id {tx.msg.id}")
            if [q.key() for q in tx.msg.questions] != [q.key() for q in ex["q"]]:
                out.add("C11.legacy-questions", f"{qd}: legacy unicast reply echoes {tx.msg.questions}")
        if (tx.msg.flags & 0x8400) != 0x8400:
            out.add("C11.unicast-flags", f"{qd}: unicast reply flags {tx.msg.flags:#06x}")
    got_m = {}
    for tx in mc:
        for r in tx.msg.answers:
            got_m[_key(r)] = r
    wantM = {_key(r): r for r in M.values() if r.type != wire.T_NSEC}
    miss_m = [r for k, r in wantM.items() if k not in got_m]
    if miss_m:
        out.add("C11.multicast-now-missing", f"{qd}: expected immediate multicast of {miss_m[:3]}; multicast at that "
                f"instant: {[tx.msg.answers[:3] for tx in mc]}", legacy=ex["legacy"], probe=ex["probe"])
        pass
    # a multicast reply is owed to the querier: it has to go to the group of the querier's address family (a host that
    # asked over IPv4 does not hear ff02::fb)
    fam_group = wire.MCAST6 if ":" in ex["src"][0] else wire.MCAST4
    got_fam = {_key(r) for tx in mc if tx.dst[0] == fam_group for r in tx.msg.answers}
    wrong_fam = [r for k, r in wantM.items() if k in got_m and k not in got_fam]
    if wrong_fam:
        out.add("C11.multicast-not-on-queriers-family", f"{qd}: {wrong_fam[:2]} multicast only to "
                f"{sorted({tx.dst[0] for tx in mc})}, the querier asked over {'IPv6' if ':' in ex['src'][0] else 'IPv4'}",
                single_dual_stack_socket=bool(ex.get("dd")), legacy=ex["legacy"], probe=ex["probe"])
    if M and not ex["legacy"] and any(q.qu for q in ex["q"]):
        stats["qu_multicast_instead"] += int(count)
    if N:
        stats["qu_unicast_only"] += int(count)
        leaked = [r for k, r in ((_key(r), r) for r in N.values()) if k in got_m and r.type != wire.T_NSEC]
        if leaked and not _pending_before(expect, ex, leaked):
            out.add("C11.qu-recent-multicast", f"{qd}: {leaked[:2]} was multicast within a quarter of its TTL and the "
                    "question was QU, yet it was multicast again at once")




def _pending_before(expect, ex, leaked):
    """An earlier query (within 1.2 s) may have queued the same record for aggregated multicast, one delivered in the same
    instant may be the reason for an immediate one."""
    keys = {_key(r) for r in leaked}
    for other in expect:
        if other is ex or other["t"] > ex["t"] or ex["t"] - other["t"] > 1.25:
            continue
        return True
    return False


if __name__ == "__main__":
    import checks.c11 as me

    sys.exit(runner.main(me))
