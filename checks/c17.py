"""C17 - shutdown is complete and quiet."""
import asyncio
import sys

from sim import runner, wire
from sim.driver import Driver, qtype_of
from sim.net import FaultConfig
from sim.svc import SvcRecords, gen_services
from sim.world import AsyncServiceBrowser, RecordingListener, World

from zeroconf import RecordUpdateListener
import zeroconf._utils.asyncio as zc_uasyncio

PROPERTY = "C17"
LEVEL = "exploration"
QUICK_BUDGET = 30.0
THOROUGH_BUDGET = 900.0
RULE = ("One real instance (plus an honest real peer and a scripted querier) is brought into a seed-chosen in-flight "
        "state - probing, announcing, answers waiting in either multicast queue, a deferred truncated query, browsers in "
        "start-up or with refresh timers (created through async_add_service_listener and directly), lookups waiting, the "
        "cache-purge timer, thread-based ServiceBrowsers whose delivery thread is stepped by the simulator (blocking API) - and AsyncZeroconf.async_close() is issued at a seed-chosen loop-iteration index (so that "
        "closes land inside bursts) or Zeroconf.close() is called from a modelled non-loop thread; then up to 2 h of "
        "virtual time with continued incoming traffic follow, then a second close. Oracle over the trace, the callback "
        "log and the loop exception handler; every record the instance ever sent with a positive TTL must have been "
        "followed by a multicast goodbye on each socket before close returned. Non-trivial = the close call returned and at least one timer or task of the "
        "instance was pending when it was issued.")
ASSUMPTIONS = [
    "close() from a non-loop thread is modelled cooperatively: the caller runs between loop iterations with "
    "loop.is_running() true and run_coroutine_threadsafe().result() steps the simulated loop; true parallelism inside the "
    "foreign thread's non-blocking stretches is not explored",
    "Zeroconf.close() from inside the loop thread is outside the property's quantifier and not generated",
    "the delivery thread of a thread-based ServiceBrowser is modelled, not run: each queued event is handed to the "
    "listener after a seed-chosen latency of 0..50 ms, Thread.join() in cancel() runs the remaining deliveries up to the "
    "stop marker; the library's own run() loop (three lines) is what this replaces",
]

T1 = "_http._tcp.local."
T2 = "_ipp._tcp.local."


class Probe(RecordUpdateListener):
    def __init__(self, w):
        self.w = w
        self.calls = []

    def async_update_records(self, zc, now, records):
        self.calls.append(self.w.now)

    def async_update_records_complete(self):
        self.calls.append(self.w.now)


def generate(rng, tier):
    sv = gen_services(rng, rng.choice([1, 2, 3]), types=[T1, T2], hosts=["hostv.local."], prefix="V", custom_ttl=False)
    sh = gen_services(rng, 1, types=[T1], hosts=["hosth.local."], prefix="H", custom_ttl=False)
    ops = [{"t": 0.0, "op": "host", "h": "V", "ip": "10.0.0.1", "layout": rng.choice(["default", "multi"])},
           {"t": 0.0, "op": "host", "h": "H", "ip": "10.0.0.2"},
           {"t": 0.0, "op": "peer", "p": "X", "ip": "10.0.0.9", "ports": [5353, 5354]},
           {"t": 0.005, "op": "register", "h": "H", "svc": sh[0]},
           {"t": 0.006, "op": "browse", "h": "H", "id": "hb", "types": [T1, T2]}]
    t_close = rng.choice([0.0005, 0.05, 0.3, 0.5, 0.9, 1.5, 3.0, 6.0, 16.0, 30.0, 1000.0]) + rng.random() * 0.4
    startup = rng.random() < 0.1
    if startup:
        t_close = 0.0005  # the close is requested while the instance is still starting (see close_step below)
    t = 0.01
    for s in sv:
        ops.append({"t": round(rng.choice([0.01, 0.2, max(0.01, t_close - 0.5), max(0.01, t_close - 0.2)]), 6),
                    "op": "register", "h": "V", "svc": s})
    if rng.random() < 0.3:
        # the application also unregisters one of its services around the time it closes the instance (a component
        # withdrawing its own service while the application shuts down)
        for s_ in rng.sample(sv, rng.choice([1, 1, min(2, len(sv))])):
            ops.append({"t": round(max(0.012, t_close + rng.choice([-0.3, -0.13, -0.05, -0.001, 0.0, 0.02, 0.1, 0.13, 0.2,
                                                                    0.26])), 6),
                        "op": "unregister", "h": "V", "name": s_["name"]})
    if not startup and t_close > 1.2 and rng.random() < 0.15:
        # the application updates a service shortly before it closes the instance (the update takes an address away, or
        # gives the host another one): what the update promised to withdraw has to be withdrawn all the same
        s2 = dict(sv[0])
        s2["addrs"] = rng.choice([["10.0.1.1"], ["fe80::1:9"], ["10.0.1.1", "fe80::1:1"]])
        s2["addrs"] = [a for a in s2["addrs"] if a not in sv[0]["addrs"]] or ["10.66.0.1"]
        s2["port"] = sv[0]["port"] + 1
        for o in ops:
            if o["op"] == "register" and o["svc"]["name"] == sv[0]["name"]:
                o["t"] = 0.01  # (registered long before, so that the update is an update)
        ops.append({"t": round(t_close - rng.choice([0.0000001, 0.001, 0.1, 0.3, 0.6]), 6), "op": "update", "h": "V", "svc": s2})
    nb = rng.choice([0, 1, 2, 3])
    for i in range(nb):
        ops.append({"t": round(rng.choice([0.02, max(0.02, t_close - 0.08), max(0.02, t_close - 5.0), t_close - 0.001])
                               if t_close > 0.03 else (0.0 if startup else 0.0004), 6),
                    "op": "browse17", "h": "V", "id": f"vb{i}", "types": [rng.choice([T1, T2])],
                    "via_azc": rng.random() < 0.5, "delay": rng.choice([None, 1000])})
    for i in range(rng.choice([0, 1, 2])):
        ops.append({"t": round(max(0.001, t_close - rng.choice([0.01, 0.3, 1.0, 2.9])), 6), "op": "lookup", "h": "V",
                    "type": T1, "name": rng.choice(["H0._http._tcp.local.", "Nobody._http._tcp.local."]),
                    "timeout": rng.choice([500, 3000, 10000])})
    # queries shortly before the close so that answers are queued / deferred
    for i in range(rng.choice([0, 1, 2, 4])):
        s = rng.choice(sv)
        r = SvcRecords(s)
        qn, qt = rng.choice([(s["type"], 12), (s["name"], 33), (s["name"], 16), (r.server, 1)])
        ops.append({"t": round(max(0.001, t_close - rng.choice([0.0, 0.01, 0.05, 0.3, 0.45, 1.0, 1.15])), 6), "op": "send",
                    "p": "X", "src_port": rng.choice([5353, 5353, 5354]),
                    "msg": {"q": [[qn, qt, int(rng.random() < 0.2)]], "id": rng.randrange(1, 60000),
                            "tc": int(rng.random() < 0.25)}})
    if rng.random() < 0.25:
        # the process is descheduled shortly before the close: the close then runs together with the backlog
        ops.append({"t": round(max(0.0003, t_close - rng.choice([0.4, 0.1, 0.02, 0.001])), 6), "op": "stall", "h": "V",
                    "dur": rng.choice([0.03, 0.15, 0.5, 1.2])})
    if rng.random() < 0.15:
        # ... or right after the close was requested (start-up, goodbyes and the close itself then resume together)
        ops.append({"t": round(t_close + rng.choice([0.0001, 0.001, 0.01, 0.13]), 6), "op": "stall", "h": "V",
                    "dur": rng.choice([0.3, 1.05, 1.5])})
    mode = "sync" if rng.random() < 0.25 and not startup else "async"
    if (mode == "sync" and rng.random() < 0.6) or (mode == "async" and not startup and rng.random() < 0.12):
        # an application written against the blocking API: ServiceBrowser objects with their own delivery thread, created
        # through Zeroconf.add_service_listener (the thread is stepped by the simulator, see _ThreadModel)
        for i in range(rng.choice([1, 2])):
            ops.append({"t": round(rng.choice([0.02, max(0.02, t_close - 0.08), max(0.02, t_close - 5.0), max(0.02, t_close - 0.001)]), 6),
                        "op": "tbrowse17", "h": "V", "id": f"tb{i}", "type": rng.choice([T1, T2])})
    if startup and rng.random() < 0.4:
        ops.append({"t": 0.0, "op": "close", "h": "V"})  # ... and a second request in the same instant
    if mode == "async" and rng.random() < 0.2:
        # a second async_close() overlapping the first (a signal handler and a finally block, say)
        ops.append({"t": round(t_close + rng.choice([0.0, 0.001, 0.05, 0.126, 0.2, 0.3]), 6), "op": "close", "h": "V"})
    # traffic after the close
    horizon = t_close + rng.choice([5.0, 60.0, 7200.0])
    ta = t_close + 0.3
    for i in range(rng.choice([2, 4, 8])):
        s = rng.choice(sv)
        r = SvcRecords(s)
        if rng.random() < 0.6:
            qn, qt = rng.choice([(s["type"], 12), (s["name"], 33), (r.server, 1)])
            ops.append({"t": round(ta, 6), "op": "send", "p": "X", "src_port": rng.choice([5353, 5354]),
                        "msg": {"q": [[qn, qt, int(rng.random() < 0.3)]], "id": rng.randrange(1, 60000)}})
        else:
            ops.append({"t": round(ta, 6), "op": "send", "p": "X",
                        "msg": {"qr": 1, "an": [wire.RR(T1, 12, 4500, f"New{i}._http._tcp.local.").to_json()]}})
        ta += rng.choice([0.05, 1.0, 12.0, 100.0]) * rng.random()
    if not startup and t_close > 1.5 and rng.random() < 0.08:
        # a component keeps refreshing the TXT record of its service (a new ServiceInfo every 200 ms) and does not know
        # that the application is shutting down
        horizon = t_close + 8.0
        ops = [o for o in ops if o["t"] <= horizon]
        ta = min(ta, horizon - 2.0)
        k = 0
        tu = t_close - 0.3
        while tu < horizon + 1.5:
            s2 = dict(sv[0])
            s2["props"] = {"n": str(k)}
            ops.append({"t": round(tu, 6), "op": "update", "h": "V", "svc": s2})
            k += 1
            tu += 0.2
    ops.sort(key=lambda o: o["t"])
    faults = {"max_delay_us": rng.choice([0, 2000, 50000]), "loop_delay_us": rng.choice([0, 500]),
              "dup_p": rng.choice([0.0, 0.1])}
    return {"timer_slop_us": rng.choice([0, 0, 1, 50, 300]), "ops": ops, "faults": faults, "t_close": round(t_close, 6), "mode": mode,
            "close_step": (rng.randrange(1, 16) if startup else
                           rng.choice([None, None, rng.randrange(1, 60), rng.randrange(1, 400)])) if mode == "async" else None,
            "end": round(max(horizon, ta + 2.0), 6), "second_close": round(max(horizon, ta + 2.0) - 1.0, 6)}


class _JoinBlocksForever(Exception):
    """The delivery thread never sees its stop marker: Thread.join() in cancel() would not return."""


class _ThreadModel:
    """The delivery thread of a zeroconf.ServiceBrowser, stepped cooperatively: the real run() loop is `get an event from
    the queue; None ends the thread; otherwise fire the handlers`. Here the thread picks an event up a seed-chosen
    scheduling latency (0 .. 50 ms) after it was queued, and a handler may take its time (mostly none, now and then 0.2 ..
    3 s: a slow listener) during which the thread is busy. join() - called by cancel() on the closing thread - blocks its
    caller while the thread works: virtual time moves on by as much as the caller waited (until the stop marker was
    reached, or the timeout given to join ran out), and nothing else of the loop runs meanwhile when the caller is the
    loop thread."""

    def __init__(self, w, host, sb):
        self.w, self.host, self.sb = w, host, sb
        self.items = []  # (event, ready_at, busy)
        self.finished = False
        self.free_at = 0.0
        self._wake = None

    # queue.SimpleQueue surface used by ServiceBrowser
    def put(self, item):
        lat, busy = self.w.decide(f"thread/{self.host.name}", lambda r: (r.choice([0.0, 0.0, 1e-6, 1e-4, 0.003, 0.05]),
                                                                         r.choice([0.0] * 6 + [0.2, 1.5, 3.0])))
        self.items.append((item, self.w.now + lat, busy))
        self._arm()

    def get(self):  # never called: run() is modelled by step()
        raise AssertionError("the delivery thread is modelled")

    def _arm(self):
        if self._wake is not None or self.finished or not self.items:
            return
        at = max(self.items[0][1], self.free_at, self.w.now)
        self._wake = self.w.loop.call_at(at, self._on_wake, context=self.host.new_context())

    def _on_wake(self):
        self._wake = None
        if self.finished or not self.items:
            return
        if max(self.items[0][1], self.free_at) > self.w.now + 1e-12:
            self._arm()
            return
        self._take()
        self._arm()

    def _take(self):
        ev, _, busy = self.items.pop(0)
        if ev is None:
            self.finished = True
            self.w.log("thread-exit", self.host.name)
            return
        self.free_at = self.w.now + busy
        self.w.net.fault_counts["thread_delivered_callbacks"] = self.w.net.fault_counts.get("thread_delivered_callbacks", 0) + 1
        self.sb._fire_service_state_changed_event(ev)

    def join(self, timeout=None):
        loop = self.w.loop
        deadline = None if timeout is None else loop._now + timeout
        while not self.finished:
            if not self.items:
                if deadline is None:
                    raise _JoinBlocksForever("ServiceBrowser.cancel(): the delivery thread was never told to stop")
                loop._now = max(loop._now, deadline)
                return
            at = max(self.items[0][1], self.free_at, loop._now)
            if deadline is not None and at > deadline:
                loop._now = max(loop._now, deadline)
                return
            loop._now = at  # the caller is blocked while the thread works
            self._take()
        # the thread ends when its last handler has returned
        end = max(self.free_at, loop._now)
        loop._now = end if deadline is None else min(end, max(deadline, loop._now))


class _SyncFuture:
    def __init__(self, w, host, coro):
        self.w, self.host, self.coro = w, host, coro

    def result(self, timeout=None):
        loop = self.w.loop
        loop.force_running = False
        self.w.sync_calls = getattr(self.w, "sync_calls", [])
        self.w.sync_calls.append([loop._now, None])
        try:
            async def waiter():
                return await asyncio.wait_for(self.coro, timeout)

            return self.host.new_context().run(loop.run_until_complete, waiter())
        finally:
            self.w.sync_calls[-1][1] = loop._now
            loop.force_running = True


def execute(scenario, seed, overrides=None):
    out = runner.Outcome()
    w = World(seed, FaultConfig(**scenario.get("faults", {})), overrides,
              timer_slop=scenario.get("timer_slop_us", 0) / 1e6)
    stats = {"close_returned": 0, "pending_timers_at_close": 0, "queued_answers_at_close": 0, "deferred_at_close": 0,
             "browsers_at_close": 0, "lookups_pending_at_close": 0, "registrations_in_flight_at_close": 0,
             "sync_close": 0, "close_by_step": 0, "registered_at_close": 0}
    real_asyncio = zc_uasyncio.asyncio
    try:
        drv = Driver(w, scenario)
        probe = Probe(w)
        st = {"t_call": None, "t_ret": None, "registered": [], "t_ret2": None, "exc": None}

        def op_browse17(op):
            h = w.hosts["V"]
            if not h.alive or h.zc.done:
                return None
            lst = RecordingListener(w, h, op["id"])
            drv.listeners[("V", op["id"])] = lst
            if op.get("via_azc"):
                return w.spawn(h, "add_listener", lambda: h.azc.async_add_service_listener(op["types"][0], lst), op["id"])
            kw = {"delay": op["delay"]} if op.get("delay") else {}
            h.new_context().run(lambda: h.browsers.__setitem__(op["id"], AsyncServiceBrowser(h.zc, list(op["types"]),
                                                                                              listener=lst, **kw)))
            return lst

        drv.hooks["browse17"] = op_browse17
        threads = []

        def op_tbrowse17(op):
            import zeroconf._services.browser as zb

            h = w.hosts["V"]
            if not h.alive or h.zc.done or st["t_call"] is not None:
                return None
            lst = RecordingListener(w, h, op["id"])
            drv.listeners[("V", op["id"])] = lst
            real_start = zb.ServiceBrowser.start
            zb.ServiceBrowser.start = lambda self: None  # the thread is modelled, not started
            try:
                # (called like from any application thread: the loop is running, this is not one of its callbacks' tasks)
                h.new_context().run(h.zc.add_service_listener, op["type"], lst)
            finally:
                zb.ServiceBrowser.start = real_start
            sb = h.zc.browsers[lst]
            tm = _ThreadModel(w, h, sb)
            sb.queue = tm
            sb.join = tm.join
            threads.append(tm)
            stats["threaded_browsers"] = stats.get("threaded_browsers", 0) + 1
            return lst

        drv.hooks["tbrowse17"] = op_tbrowse17

        def snapshot_state():
            h = w.hosts["V"]
            zc = h.zc
            st["t_call"] = w.now
            st["registered"] = [SvcRecords(_svc_of(scenario, i.name, w.now - w.t0 + 1e-9))
                                for i in zc.registry.async_get_service_infos()]
            stats["registered_at_close"] += len(st["registered"])
            stats["queued_answers_at_close"] += len(zc.out_queue.queue) + len(zc.out_delay_queue.queue)
            stats["deferred_at_close"] += sum(len(p._deferred) for p in zc.engine.protocols)
            stats["browsers_at_close"] += len(h.browsers) + len(h.azc.async_browsers) + len(zc.browsers)
            stats["lookups_pending_at_close"] += sum(1 for lk in drv.lookups if lk["entry"]["t_done"] is None)
            stats["registrations_in_flight_at_close"] += sum(1 for e in w.api_log if e["op"] == "register" and
                                                             e["host"] == "V" and e["t_done"] is None)
            stats["pending_timers_at_close"] += len(w.loop.pending_timers())

        def do_async_close():
            h = w.hosts["V"]
            if st["t_call"] is not None:
                return
            snapshot_state()
            e = w.spawn(h, "close", h.azc.async_close, None)
            st["entry"] = e

        def op_close(op):
            # whichever close request comes first is "the" close; a later, overlapping one must be a no-op
            if st["t_call"] is None:
                do_async_close()
                return st["entry"]
            return w.spawn(w.hosts["V"], "close-overlap", w.hosts["V"].azc.async_close, None)

        drv.op_close = op_close

        if scenario["mode"] == "async" and scenario.get("close_step"):
            k = scenario["close_step"]
            stats["close_by_step"] += 1

            def on_step(n):
                if n >= k and "V" in w.hosts and st["t_call"] is None and w.hosts["V"].zc is not None and \
                        not w.loop.stalls.get("V", 0.0) > w.now:
                    w.loop.call_soon(do_async_close)

            w.loop.on_step = on_step

        async def phase1():
            drv.schedule_all()
            await w.sleep_until(0.0002)
            w.hosts["V"].zc.async_add_listener(probe, None)
            await w.sleep_until(scenario["t_close"])
            until = w.loop.stalls.get("V")
            if until is not None and until > w.now:
                # the application that calls close lives in the stalled process
                await w.sleep_until(until - w.t0 + 2e-9)
            if scenario["mode"] == "async":
                if st["t_call"] is None:
                    do_async_close()
                else:
                    w.spawn(w.hosts["V"], "close-overlap", w.hosts["V"].azc.async_close, None)

        async def phase2():
            await w.sleep_until(scenario["second_close"])
            h = w.hosts["V"]
            e2 = w.spawn(h, "close2", h.azc.async_close, None)
            # (a close that had to wait for a slow listener of a thread-based browser may have taken the clock past
            # the planned end of the run)
            await w.sleep_until(max(scenario["end"], w.rel() + 1.5))
            st["t_ret2"] = e2["t_done"]
            st["exc2"] = e2["exc"]

        w.run(phase1())
        if scenario["mode"] == "sync":
            # Zeroconf.close() called from a thread that is not the loop thread, between two loop iterations
            stats["sync_close"] += 1
            h = w.hosts["V"]
            snapshot_state()

            class _Proxy:
                def __getattr__(self, n):
                    return getattr(real_asyncio, n)

                @staticmethod
                def run_coroutine_threadsafe(coro, loop):
                    return _SyncFuture(w, h, coro)

            zc_uasyncio.asyncio = _Proxy()
            w.loop.force_running = True
            w.log("api", "V", "sync-close", None)
            try:
                h.zc.close()
            except Exception as e:  # noqa
                st["exc"] = type(e).__name__ + ": " + str(e)[:100]
            finally:
                w.loop.force_running = False
                zc_uasyncio.asyncio = real_asyncio
            st["t_ret"] = w.now
            w.log("api-done", "V", "sync-close", st["exc"])
        w.run(phase2())
        if scenario["mode"] == "async":
            e = st.get("entry")
            if e is not None:
                st["t_ret"] = e["t_done"]
                st["exc"] = e["exc"]
        _oracle(w, drv, scenario, st, probe, stats, out)
        out.digest = w.digest()
        out.interleaving = w.interleaving_digest()
        out.sim_seconds = w.now - w.t0
        out.decisions = w.dec.recorded
        out.stats.update({f"fault_{k}": v for k, v in w.net.fault_counts.items()})
        out.stats.update(stats)
        out.nontrivial = st["t_ret"] is not None and stats["pending_timers_at_close"] > 0
        out.sample = {"mode": scenario["mode"], "t_close": scenario["t_close"], "close_step": scenario.get("close_step"),
                      "ops": scenario["ops"][5:10], "state_at_close": {k: v for k, v in stats.items() if v}}
    finally:
        zc_uasyncio.asyncio = real_asyncio
        w.teardown()
    return out


def _after_unregister_all_returned(w, t):
    """Zeroconf.close() from another thread: the record was sent at or after the instant unregister_all_services()
    returned to the calling thread (its first blocking call into the loop), i.e. before that thread got to set `done`."""
    calls = getattr(w, "sync_calls", [])
    return bool(calls) and calls[0][1] is not None and t >= calls[0][1] - 1e-6


def _svc_of(sc, name, t=None):
    """The version of the service that the application handed over last (register or update) up to time t."""
    found = None
    for o in sc["ops"]:
        if o["op"] in ("register", "update") and o["svc"]["name"].lower() == name.lower() and (t is None or o["t"] <= t):
            found = o["svc"]
    if found is None:
        raise KeyError(name)
    return found


def _oracle(w, drv, sc, st, probe, stats, out):
    t0 = w.t0
    for e in w.loop.exceptions:
        out.add("C17.loop-exception", f"{e['type']} reached the loop exception handler at {e['t'] - t0:.6f}: "
                f"{e['message']} {e['exception'][:120]}", exc=e["type"])
        break
    if st["t_call"] is None:
        return
    if st["t_ret"] is None:
        out.add("C17.close-never-returned", f"close issued at {st['t_call'] - t0:.6f} had not returned by the end of the run")
        return
    if st["exc"]:
        out.add("C17.close-raised", f"close raised {st['exc']}")
    stats["close_returned"] += 1
    t_ret = st["t_ret"]
    vtx = [tx for tx in w.net.trace if tx.host == "V"]
    late = [tx for tx in vtx if tx.t > t_ret]
    if late:
        out.add("C17.transmits-after-close", f"close returned at {t_ret - t0:.6f}; {len(late)} transmission(s) afterwards, "
                f"first at {late[0].t - t0:.6f}: {late[0].msg!r}"[:400], after_s=round(late[0].t - t_ret, 3))
    for (hn, bid), lst in drv.listeners.items():
        if hn != "V":
            continue
        lc = [ev for ev in lst.events if ev[0] > t_ret]
        if lc:
            out.add("C17.callback-after-close", f"browser {bid} callback {lc[0][1]} {lc[0][3]} at {lc[0][0] - t0:.6f}, "
                    f"after close returned at {t_ret - t0:.6f}")
            break
    pc = [t for t in probe.calls if t > t_ret]
    if pc:
        out.add("C17.listener-after-close", f"record-update listener called at {pc[0] - t0:.6f} after close returned at "
                f"{t_ret - t0:.6f}")
    # address records of a service that was unregistered through the API while another registered service used the same
    # host name are exempt from goodbyes (C08 states the exemption); they may stay advertised for their TTL
    unreg_names = {e["args"].lower() for e in w.api_log if e["op"] == "unregister" and e["host"] == "V"}
    exempt = set()
    for o in sc["ops"]:
        if o["op"] == "register" and o.get("h") == "V" and o["svc"]["name"].lower() in unreg_names:
            exempt |= {r.ident() for r in SvcRecords(o["svc"]).addrs}
    # a service that the application keeps updating after it asked for the close (API calls on a closing instance are
    # outside the quantifier) is only required not to keep the close from returning
    late_updates = {e["args"].lower() for e in w.api_log if e["op"] == "update" and e["host"] == "V"
                    and e["t_call"] >= st["t_call"] - 1e-9}
    for o in sc["ops"]:
        if o["op"] == "update" and o["svc"]["name"].lower() in late_updates:
            exempt |= {r.ident() for r in SvcRecords(o["svc"]).all()}
    # goodbyes for what was registered when close was called: every record three times on every socket
    for recs in st["registered"]:
        if recs.name.lower() in late_updates:
            continue
        must = {r.ident() for r in [recs.ptr, recs.srv, recs.txt] + recs.addrs}
        if recs.name.lower() in unreg_names:
            must -= exempt
        per_sock = {}
        for tx in vtx:
            if tx.t + 1e-9 < st["t_call"] or not tx.multicast or tx.msg is None or not tx.msg.is_response:
                continue
            cnt = per_sock.setdefault(tx.sock, {})
            for i in {r.ident() for r in tx.msg.records() if r.ttl == 0}:
                cnt[i] = cnt.get(i, 0) + 1
        short = sorted((sock, i) for sock, cnt in per_sock.items() for i in must if cnt.get(i, 0) < 3)
        if not per_sock or short:
            out.add("C17.goodbye-missing", f"{recs.name}: registered when close was called at {st['t_call'] - t0:.6f} but "
                    f"fewer than 3 goodbyes for {short[:3] if per_sock else 'any record on any socket'}",
                    n=min([per_sock[s_][i] if i in per_sock[s_] else 0 for s_, i in short], default=0))
    # whatever the instance advertised with a positive TTL has been withdrawn by the time close returns: the last
    # transmission of each of its records on every socket is a goodbye ("Registered services have been withdrawn with
    # goodbyes before the sockets close", whatever was in progress - in particular a registration that finished
    # probing while the shutdown's own goodbyes were going out)
    pos, gb = {}, {}
    for tx in vtx:
        if tx.t > t_ret or tx.msg is None or not tx.msg.is_response:
            continue
        for r in tx.msg.records():
            if r.type == wire.T_NSEC:
                continue
            if r.flush and tx.multicast:
                # a unique record multicast with the cache-flush bit - an announcement, or the goodbye of the version
                # that replaced it - retires what was announced before for that name and type: the replaced version
                # needs no goodbye of its own
                for old_ident in [i for i in pos if i[:3] == r.ident()[:3] and i != r.ident()]:
                    del pos[old_ident]
                    gb.pop(old_ident, None)
            if r.ident() in exempt:
                continue
            if r.ttl > 0:
                pos[r.ident()] = (tx.t, tx.sock, tx.multicast, r)
                if tx.multicast:
                    gb.setdefault(r.ident(), {})[tx.sock] = None
            elif tx.multicast:
                gb.setdefault(r.ident(), {})[tx.sock] = tx.t
    for ident, (t, sock, mc, r) in sorted(pos.items(), key=lambda kv: (kv[1][0], repr(kv[0]))):
        socks = gb.get(ident, {})
        # every socket that multicast the record must have multicast its goodbye last, and not before the last
        # positive copy of any kind (a unicast reply included)
        bad = [s_ for s_, tg in sorted(socks.items()) if tg is None or tg < t]
        if bad or not socks:
            out.add("C17.advertised-not-withdrawn", f"{r!r} was last sent with TTL {r.ttl} at {t - t0:.6f} on {sock} "
                    f"({'multicast' if mc else 'unicast'}); close was called at {st['t_call'] - t0:.6f} and returned at "
                    f"{t_ret - t0:.6f}; no later goodbye on {bad or 'any socket'}", after_call=t >= st["t_call"],
                    rtype=r.type, mode=sc["mode"], reg_in_flight=stats["registrations_in_flight_at_close"] > 0,
                    at_return=abs(t - t_ret) < 1e-6 or _after_unregister_all_returned(w, t))
            break
    for owner, exc, coro in w.loop.unretrieved_task_exceptions():
        if owner == "V":
            out.add("C17.task-exception-unretrieved", f"a task of the instance ended with {exc} and nobody retrieves it (asyncio "
                    f"reports it through the loop's exception handler when the task is collected): {coro}", exc=exc)
            break
    for e in w.api_log:
        if e["op"] == "close-overlap" and e["exc"]:
            out.add("C17.second-close-raised", f"an overlapping second close raised {e['exc']}")
            break
    if st.get("exc2"):
        out.add("C17.second-close-raised", f"closing again raised {st['exc2']}")
    if st["t_ret2"] is None:
        out.add("C17.second-close-hangs", "closing again did not return")


if __name__ == "__main__":
    import checks.c17 as me

    sys.exit(runner.main(me))
