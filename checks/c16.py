"""C16 - back-to-back duplicate datagrams change nothing (metamorphic)."""
import hashlib
import sys

from sim import runner, wire
from sim.driver import Driver
from sim.net import FaultConfig
from sim.svc import SvcRecords, gen_services
from sim.world import World

PROPERTY = "C16"
LEVEL = "exploration"
QUICK_BUDGET = 30.0
THOROUGH_BUDGET = 900.0
RULE = ("Each case is run twice from the same seed and decisions: a reference run, and a run in which a seed-chosen "
        "subset (often all) of the deliveries to the real instances is delivered twice in immediate succession on the "
        "same socket. Scenario: two real instances with registered services and browsers plus a scripted peer sending "
        "queries of every kind (QM/QU, legacy port, truncated trains, probes) and responses (new, refreshed, goodbye, "
        "flush records) over a delaying link. The transmission traces (time, destination, bytes) and callback logs of "
        "the two runs must be equal event for event, except that identical unicast replies at one instant count once. "
        "Non-trivial = at least 3 deliveries were duplicated and the instances transmitted at least 6 datagrams.")
ASSUMPTIONS = [
    "jitter draws are per host and call site, so a suppressed duplicate consumes none and the two runs stay aligned",
    "the only exempted difference is a repeated identical unicast reply at the same instant (the property's QU exemption)",
]

T1 = "_http._tcp.local."
T2 = "_ipp._tcp.local."


def _generate_registry_race(rng):
    """A query and its link-layer copy wait in the socket buffer of a process that is descheduled across the instant its
    first registration completes: the first copy is read while nothing is registered yet (not listened to), the
    registration completes, the copy is read. Shortly afterwards the instance itself has the same question to ask. (The
    stall ends before either copy is read: none lies between the two reads of a pair.)"""
    sv = gen_services(rng, 1, types=[T1], hosts=["hostv.local."], prefix="V")
    tr = round(0.01 + rng.choice([0.0, 0.5, 2.0]) * rng.random(), 6)
    ops = [{"t": 0.0, "op": "host", "h": "V", "ip": "10.0.0.1", "layout": rng.choice(["default", "multi"]), "ip6": None,
            "unicast": False},
           {"t": 0.0, "op": "peer", "p": "X", "ip": "10.0.0.9", "ports": [5353, 5354]},
           {"t": tr, "op": "register", "h": "V", "svc": sv[0]},
           # (probes at +0, +175, +350 ms: the registry gets the service with the third)
           {"t": round(tr + rng.choice([0.2, 0.3, 0.34]), 6), "op": "stall", "h": "V", "dur": rng.choice([0.1, 0.2, 0.4])},
           {"t": round(tr + 0.345, 6), "op": "send", "p": "X",
            "msg": {"q": [[rng.choice([T1, sv[0]["name"]]), rng.choice([12, 12, 255]), 0]], "id": 0}},
           {"t": round(tr + rng.choice([0.8, 0.85, 1.0, 1.2]), 6), "op": "browse", "h": "V", "id": "vb", "types": [T1],
            "qtype": "QM", "lookup_on_add": None, "raise_once": False}]
    ops.sort(key=lambda o: o["t"])
    return {"ops": ops, "faults": {"max_delay_us": 0, "loop_delay_us": rng.choice([0, 300])}, "end": round(tr + 5.0, 6),
            "dup_p": 1.0, "dup_own": False, "qu_free": True, "b2b_gap_us": 0}


def generate(rng, tier):
    if rng.random() < 0.06:
        return _generate_registry_race(rng)
    sv = gen_services(rng, 2, types=[T1], hosts=["hostv.local."], prefix="V", custom_ttl=False)
    sh = gen_services(rng, 1, types=[rng.choice([T1, T2])], hosts=["hosth.local."], prefix="H", custom_ttl=False)
    v6 = rng.random() < 0.3  # dual-stack instance: datagrams are read from an AF_INET6 socket (4-tuple source addresses)
    # an instance created with unicast=True has no socket in the mDNS group: it hears only what is sent to its own port,
    # in particular not its own multicast transmissions, so nothing but the peer's datagrams ever passes its listener
    uni = not v6 and rng.random() < 0.2
    ops = [{"t": 0.0, "op": "host", "h": "V", "ip": "10.0.0.1", "layout": "multi" if v6 or uni else rng.choice(["default", "multi"]),
            "ip6": "fe80::1" if v6 else None, "unicast": uni},
           {"t": 0.0, "op": "host", "h": "H", "ip": "10.0.0.2", "layout": rng.choice(["default", "multi"])},
           {"t": 0.0, "op": "peer", "p": "X", "ip": "10.0.0.9", "ports": [5353, 5354]}]
    qu_free = uni or rng.random() < 0.5
    # QU questions only inside truncated queries: a copy of a held truncated query is ignored whatever its questions, so
    # these runs are compared to the end although they contain QU questions
    qu_only_tc = qu_free and rng.random() < 0.5
    ops.append({"t": 0.01, "op": "register", "h": "V", "svc": sv[0]})
    ops.append({"t": rng.choice([0.02, 1.5]), "op": "register", "h": "V", "svc": sv[1]})
    if not qu_free:
        ops.append({"t": rng.choice([0.03, 0.7, 2.0]), "op": "register", "h": "H", "svc": sh[0]})
        ops.append({"t": rng.choice([0.0101, 0.5, 3.0]), "op": "browse", "h": "H", "id": "hb", "types": [T1]})
    else:
        ops = [o for o in ops if o.get("h") != "H"]
    ops.append({"t": rng.choice([0.04, 0.6, 2.5]), "op": "browse", "h": "V", "id": "vb", "types": [T1, T2],
                "lookup_on_add": rng.choice([None, 3000]),
                # an application handler with a bug of its own: it raises the first time it is told about a service
                "raise_once": rng.random() < 0.12})
    t = rng.choice([1.0, 2.5, 4.0, 40.0, 1200.0])
    recs = SvcRecords(sv[0])
    ext = SvcRecords({"type": T2, "name": "Ext._ipp._tcp.local.", "port": 631, "server": "ext.local.",
                      "addrs": ["10.0.0.9"], "props": {"x": "1"}})
    for _ in range(rng.choice([3, 6, 10] + ([16, 30] if tier == "thorough" else []))):
        k = rng.random()
        if k < 0.45:
            qs = []
            tcbit = int(rng.random() < (0.4 if qu_only_tc else 0.15))
            for _q in range(rng.choice([1, 1, 2, 3])):
                s = rng.choice(sv + sh)
                r = SvcRecords(s)
                qn, qt = rng.choice([(s["type"], 12), (s["name"], 33), (s["name"], 16), (r.server, 1), (r.server, 28),
                                     (s["name"], 255)])
                qu = (tcbit and rng.random() < 0.7) if qu_only_tc else (not qu_free and rng.random() < 0.35)
                qs.append([qn, qt, int(qu)])
            known = [recs.ptr.to_json()] if rng.random() < 0.2 else []
            ops.append({"t": round(t, 6), "op": "send", "p": "X", "src_port": rng.choice([5353, 5353, 5353, 5354]),
                        "msg": {"q": qs, "an": known, "id": rng.randrange(1, 60000), "tc": tcbit}})
        elif k < 0.55:
            # probe for the victim's name (authority section)
            ops.append({"t": round(t, 6), "op": "send", "p": "X",
                        "msg": {"q": [[sv[0]["type"], 12, int(not qu_free and rng.random() < 0.7)]],
                                "ns": [recs.ptr.to_json()]}})
        else:
            ttl = rng.choice([0, 1, 120, 4500])
            rr = rng.choice([ext.ptr, ext.srv, ext.txt] + ext.addrs)
            lst = [wire.RR(rr.name, rr.type, ttl if rr.type != 12 or ttl else ttl, rr.rdata, rr.flush and rng.random() < 0.7)]
            if rng.random() < 0.5:
                lst += [wire.RR(x.name, x.type, x.ttl, x.rdata, x.flush) for x in (ext.ptr, ext.srv, ext.txt)]
            ops.append({"t": round(t, 6), "op": "send", "p": "X", "msg": {"qr": 1, "an": [x.to_json() for x in lst]}})
        if uni:
            ops[-1]["dst"] = ["10.0.0.1", 40000]
        elif rng.random() < 0.2:
            # at the same moment something else reaches ANOTHER socket of the instance (its unicast socket, when it has
            # one): the event loop reads one datagram per socket and iteration, so this one is read between the two
            # copies of the datagram above
            comp = rng.choice(["junk", "query", "response"])
            if comp == "junk":
                ops.append({"t": round(t, 6), "op": "send", "p": "X", "dst": ["10.0.0.1", 5353], "raw": rng.choice(["00", "ff" * 13])})
            elif comp == "query":
                ops.append({"t": round(t, 6), "op": "send", "p": "X", "dst": ["10.0.0.1", 5353],
                            "msg": {"q": [["nobody.local.", 1, 0]], "id": rng.randrange(1, 60000)}})
            else:
                ops.append({"t": round(t, 6), "op": "send", "p": "X", "dst": ["10.0.0.1", 5353],
                            "msg": {"qr": 1, "an": [ext.txt.to_json()]}})
        if rng.random() < (0.5 if uni else 0.15):
            # the very same datagram again (a querier that retries, a responder that repeats itself), after the
            # one-second memory of the duplicate guard or within it
            for _r in range(rng.choice([1, 1, 2])):
                t += rng.choice([0.3, 0.999, 1.0, 1.001, 1.1, 2.5, 5.0])
                ops.append(dict(ops[-1], t=round(t, 6)))
        t += rng.choice([0.0, 0.001, 0.05, 0.3, 0.999, 1.0, 1.3, 5.0]) * rng.random()
    if rng.random() < 0.3:
        ops.append({"t": round(t, 6), "op": "unregister", "h": "V", "name": sv[1]["name"]})
    ops.sort(key=lambda o: o["t"])
    faults = {"max_delay_us": rng.choice([0, 2000, 100000]), "loop_delay_us": rng.choice([0, 300, 1000])}
    return {"ops": ops, "faults": faults, "end": round(t + 3.0, 6), "dup_p": rng.choice([1.0, 1.0, 0.5, 0.2]),
            "dup_own": (not qu_free) and rng.random() < 0.1, "qu_free": qu_free,
            "b2b_gap_us": 0}


def _run(scenario, seed, overrides, dup):
    w = World(seed, FaultConfig(**scenario.get("faults", {})), overrides)
    try:
        drv = Driver(w, scenario)
        w.net.content_keyed = True
        w.jitter_time_keyed = True
        ndup = [0]
        if dup:
            p = scenario.get("dup_p", 1.0)
            w.net.b2b_all = True
            w.net.b2b_gap = scenario.get("b2b_gap_us", 0) / 1e6

            def filt(tx, rsock):
                if rsock.owner.name not in ("V", "H"):
                    return False
                if tx.host == rsock.owner.name and not scenario.get("dup_own"):
                    # a host's own multicast is looped back inside its IP stack, not over the link
                    return False
                if p < 1.0:
                    h = hashlib.blake2b(repr((tx.t, tx.data, rsock.label)).encode(), digest_size=4).digest()
                    if int.from_bytes(h, "big") / 2**32 >= p:
                        return False
                ndup[0] += 1
                return True

            w.net.b2b_filter = filt

        qrx = []

        def on_rx(t, rsock, data, addr, tx_idx, copy):
            if rsock.owner.name in ("V", "H") and copy == 1:
                m = wire.try_decode(data)
                if m is not None and not m.is_response:
                    # (a truncated query is held for continuation packets, and an identical packet that arrives while it
                    # is held is ignored whatever its questions: the QU exemption of the duplicate guard does not make
                    # such a copy count twice, so it does not end the comparison)
                    qrx.append((rsock.owner.name, t, any(q.qu for q in m.questions) and not m.tc,
                                (addr[0].replace("::ffff:", ""), addr[1])))

        w.net.on_rx = on_rx

        async def main():
            drv.schedule_all()
            await w.sleep_until(scenario["end"])

        w.run(main())
        tr = {}
        qu_sources = set()
        for tx in w.net.trace:
            if tx.host in ("V", "H"):
                tr.setdefault(tx.host, []).append((tx.t, tx.dst, tx.data, tx.multicast))
        cbs = [(rec[0],) + rec[2:] for rec in w.events if rec[1] == "cb"]
        apis = [(e["host"], e["op"], e["args"], e["exc"], e["t_done"]) for e in w.api_log]
        res = {"tr": tr, "cbs": cbs, "apis": apis, "digest": w.digest(), "inter": w.interleaving_digest(),
               "sim": w.now - w.t0, "dec": w.dec.recorded, "exc": list(w.loop.exceptions), "ndup": ndup[0],
               "faults": dict(w.net.fault_counts), "t0": w.t0, "qrx": qrx}
        return res
    finally:
        w.teardown()


def _groups(seq):
    """[(t, [events at t])] with repeated identical unicast transmissions inside one instant counted once."""
    out = []
    for ev in seq:
        if out and out[-1][0] == ev[0]:
            g = out[-1][1]
        else:
            g = []
            out.append((ev[0], g))
        if not ev[3] and ev in g:
            continue
        g.append(ev)
    return out


def _d7_shape(ga, gb):
    """gb == ga plus extra copies of multicast responses already present in the instant?"""
    rest = list(gb)
    for ev in ga:
        if ev in rest:
            rest.remove(ev)
        else:
            return False
    if not rest:
        return False
    for ev in rest:
        m = wire.try_decode(ev[2])
        if not ev[3] or m is None or not m.is_response or ev not in ga:
            return False
    return True


def execute(scenario, seed, overrides=None):
    out = runner.Outcome()
    a = _run(scenario, seed, overrides, False)
    b = _run(scenario, seed, overrides, True)
    t0 = a["t0"]
    for r in (a, b):
        own = [e for e in r["exc"] if e.get("type") != "BuggyHandler"]  # (the application's own failing handler)
        if own:
            out.add("C16.loop-exception", f"exception reached the loop handler: {own[0]}")
    ntx = 0
    # first instant at which a query with a QU question was delivered twice back to back (known finding D7:
    # such a datagram is deliberately exempt from the duplicate guard and processed twice in full)
    t_qu = {}
    for host, t, qu, src in b["qrx"]:
        if qu and (host not in t_qu or t < t_qu[host]):
            t_qu[host] = t
    t_cut = min(t_qu.values()) if t_qu else None
    for host in ("V", "H"):
        ea = [e for _, g in _groups(a["tr"].get(host, [])) for e in g]
        eb = [e for _, g in _groups(b["tr"].get(host, [])) for e in g]
        ntx += len(ea)
        only_b = list(eb)
        only_a = []
        for e in ea:
            if e in only_b:
                only_b.remove(e)
            else:
                only_a.append(e)
        # the stated exemption: a duplicated query with a QU question may be answered by unicast twice
        qu_dups = {(t, src) for h2, t, qu, src in b["qrx"] if qu and h2 == host}
        only_b = [e for e in only_b if not (not e[3] and (e[0], e[1]) in qu_dups)]
        if not only_a and not only_b:
            continue
        diff = sorted(only_a + only_b, key=lambda e: e[0])
        tdiv = diff[0][0]
        desc = (f"host {host}: traces differ from t={tdiv - t0:.6f}: only in the reference run "
                f"{[_fmt(e, t0) for e in only_a][:2]}, only in the duplicated run {[_fmt(e, t0) for e in only_b][:2]}")

        def mresp(e):
            m = wire.try_decode(e[2])
            return e[3] and m is not None and m.is_response

        if t_cut is not None and tdiv >= t_cut:
            out.add("C16.diverges-after-duplicated-qu-query", desc + "; a query containing a QU question was delivered "
                    f"twice back to back at t={t_cut - t0:.6f} (it is exempt from the duplicate guard and processed twice "
                    "in full); no difference before that instant",
                    cause="duplicated-qu-query-processed-twice", only_mcast_responses=all(mresp(e) for e in diff))
        else:
            out.add("C16.trace-differs", desc)
    ca = [c for c in a["cbs"] if t_cut is None or float(c[0]) < t_cut]
    cb = [c for c in b["cbs"] if t_cut is None or float(c[0]) < t_cut]
    if ca != cb:
        i = 0
        while i < len(ca) and i < len(cb) and ca[i] == cb[i]:
            i += 1
        out.add("C16.callbacks-differ", f"callback logs diverge at #{i}: reference "
                f"{ca[i] if i < len(ca) else None} vs duplicated {cb[i] if i < len(cb) else None}")
    if t_cut is None and a["apis"] != b["apis"]:
        out.add("C16.api-results-differ", "API call outcomes differ between the runs")
    t_known = t_cut
    out.digest = a["digest"] + b["digest"]
    out.interleaving = b["inter"]
    out.sim_seconds = a["sim"] + b["sim"]
    out.decisions = a["dec"]
    out.stats.update({f"fault_{k}": v for k, v in b["faults"].items()})
    out.stats["duplicated_deliveries"] = b["ndup"]
    out.stats["tx_reference"] = ntx
    out.stats["runs_cut_short_by_known_finding"] = int(t_known is not None)
    out.nontrivial = b["ndup"] >= 3 and ntx >= 6
    out.sample = {"ops": scenario["ops"][3:8], "dup_p": scenario.get("dup_p"), "duplicated": b["ndup"], "tx": ntx}
    return out


def _mcast_responses_only(ea, eb):
    """The differing events of both sides are multicast responses (extra copy or shifted send time)."""
    da = [e for e in ea[1] if e not in eb[1] or ea[0] != eb[0]]
    db = [e for e in eb[1] if e not in ea[1] or ea[0] != eb[0]]
    if ea[0] == eb[0]:
        rest = list(eb[1])
        for e in ea[1]:
            if e in rest:
                rest.remove(e)
        db = rest
        da = [e for e in ea[1] if e not in eb[1]]
    for e in da + db:
        m = wire.try_decode(e[2])
        if not e[3] or m is None or not m.is_response:
            return False
    return True


def _caused_by_qu(b, host, t):
    """Was a query with a QU question delivered (twice) to this host at instant t in the duplicated run?"""
    return any(x[0] == host and x[1] == t and x[2] for x in b["qrx"])


def _fmt(ev, t0):
    if ev is None:
        return "<end>"
    t, dst, data, mc = ev
    m = wire.try_decode(data)
    return f"t={t - t0:.6f} dst={dst} {'mcast' if mc else 'ucast'} {m!r}"[:300]


if __name__ == "__main__":
    import checks.c16 as me

    sys.exit(runner.main(me))
