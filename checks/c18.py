"""C18 - service-info lookup: bounded, cache-first, never from expired data."""
import sys

from sim import runner, wire
from sim.driver import Driver
from sim.models import HostModel
from sim.net import AF_INET6, FaultConfig
from sim.world import World
from zeroconf import IPVersion

PROPERTY = "C18"
LEVEL = "exploration"
QUICK_BUDGET = 25.0
THOROUGH_BUDGET = 900.0
RULE = ("One real instance; a scripted peer pre-loads its cache with any subset of SRV/TXT/A/AAAA for the looked-up "
        "instance (fresh, older than half TTL, or expired but not yet purged: TTL 1-2 s and a wait below the 10 s purge; "
        "several addresses; an SRV whose host has or lacks addresses; two SRV generations) and answers the lookup's "
        "queries with the missing records after seed-chosen delays relative to the query schedule and to the timeout "
        "(also +-1 ms around the timeout); timeouts 200 ms..10 s, forced or default question type, 1..3 concurrent "
        "lookups. Oracle: return time, success iff an address is known, provenance of every returned field from records "
        "the reference cache held unexpired during the lookup, silence when the cache suffices, QU-then-QM otherwise. "
        "Non-trivial = a lookup finished and the cache held at least one record of the instance or the peer answered.")
ASSUMPTIONS = [
    "a field is accepted when some record with that content was unexpired in the reference cache at some instant between "
    "the start and the return of the lookup (reads happen at the start and at delivery instants)",
    "with two SRV generations cached either may be the one reported",
]

T = "_http._tcp.local."
INST = "Look._http._tcp.local."
S1 = "look1.local."
S2 = "look2.local."


def _recs():
    return {
        "srv1": wire.RR(INST, wire.T_SRV, 120, (0, 0, 8001, S1), True),
        "srv2": wire.RR(INST, wire.T_SRV, 120, (1, 5, 8002, S2), True),
        "txt": wire.RR(INST, wire.T_TXT, 4500, b"\x05v=one", True),
        "txt2": wire.RR(INST, wire.T_TXT, 4500, b"\x05v=two", True),
        "a1": wire.RR(S1, wire.T_A, 120, wire.ip4("10.1.1.1"), True),
        "a1b": wire.RR(S1, wire.T_A, 120, wire.ip4("10.1.1.2"), True),
        "aaaa1": wire.RR(S1, wire.T_AAAA, 120, wire.ip6("fe80::11"), True),
        "a2": wire.RR(S2, wire.T_A, 120, wire.ip4("10.2.2.2"), True),
    }


def _with_ttl(r, ttl, flush=None):
    return wire.RR(r.name, r.type, ttl, r.rdata, r.flush if flush is None else flush)


def generate(rng, tier):
    R = _recs()
    ops = [{"t": 0.0, "op": "host", "h": "V", "ip": "10.0.0.1", "layout": rng.choice(["default", "multi"])},
           {"t": 0.0, "op": "peer", "p": "P", "ip": "10.0.0.9"}]
    t_start = rng.choice([3.0, 5.0, 8.5])
    timeout = rng.choice([200, 500, 1000, 3000, 3000, 10000])
    pre = []
    for key in R:
        k = rng.random()
        if k < 0.45:
            continue
        state = rng.choice(["fresh", "fresh", "stale", "expired", "expired-early"])
        r = R[key]
        if state == "fresh":
            pre.append((t_start - rng.choice([0.5, 2.0]), _with_ttl(r, r.ttl)))
        elif state == "stale":
            ttl = rng.choice([2, 4])
            pre.append((t_start - ttl * rng.choice([0.6, 0.9, 0.999]), _with_ttl(r, ttl)))
        elif state == "expired":
            ttl = rng.choice([1, 2])
            pre.append((t_start - ttl - rng.choice([0.0, 0.001, 0.3]), _with_ttl(r, ttl)))
        else:
            ttl = rng.choice([1, 2])
            pre.append((t_start - ttl + rng.choice([0.001, 0.05, 0.15]), _with_ttl(r, ttl)))
    for (t, r) in pre:
        ops.append({"t": round(max(0.01, t), 6), "op": "send", "p": "P", "msg": {"qr": 1, "an": [r.to_json()]}})
    nl = rng.choice([1, 1, 2, 3])
    for i in range(nl):
        ops.append({"t": round(t_start + (0.0 if i == 0 else rng.choice([0.0, 0.1, 0.3])), 6), "op": "lookup", "h": "V",
                    "type": T, "name": INST, "timeout": timeout if i == 0 else rng.choice([200, 1000, 3000]),
                    "qtype": rng.choice([None, None, "QU", "QM"])})
    # reactive answers to the lookup's queries
    react = None
    if rng.random() < 0.7:
        keys = rng.sample(sorted(R), rng.choice([1, 2, 3, 5]))
        react = {"keys": keys, "delay_us": [rng.choice([0, 1000, 50000, 150000, 400000, rng.randrange(0, 1200000)])
                                           for _ in range(4)], "max": rng.choice([1, 2, 5]),
                 "ttl": rng.choice([None, None, 1])}
    # unsolicited responses around the timeout and the query instants
    for _ in range(rng.choice([0, 1, 2])):
        key = rng.choice(sorted(R))
        off = rng.choice([timeout / 1000.0 - 0.001, timeout / 1000.0, timeout / 1000.0 + 0.001, 0.1, 0.25, 0.5, 1.3])
        ops.append({"t": round(t_start + off, 6), "op": "send", "p": "P",
                    "msg": {"qr": 1, "an": [_with_ttl(R[key], rng.choice([120, 120, 1, 0])).to_json()]}})
    if rng.random() < 0.2:
        # the process is descheduled across the lookup's deadline (or across one of its query instants): what arrives
        # meanwhile waits in the socket and is read, together with every timer that came due, when it runs again
        at = rng.choice([timeout / 1000.0 - 0.15, timeout / 1000.0 - 0.05, timeout / 1000.0 - 0.001, 0.15, 0.9])
        ops.append({"t": round(t_start + max(0.001, at), 6), "op": "stall", "h": "V", "dur": rng.choice([0.1, 0.3, 0.6])})
    ops.sort(key=lambda o: o["t"])
    faults = {"max_delay_us": rng.choice([0, 0, 1000, 30000]), "loop_delay_us": rng.choice([0, 300]),
              "dup_p": rng.choice([0.0, 0.1])}
    return {"timer_slop_us": rng.choice([0, 0, 1, 50, 300]), "ops": ops, "faults": faults, "end": round(t_start + 11.5, 6), "react": react}


def execute(scenario, seed, overrides=None):
    out = runner.Outcome()
    w = World(seed, FaultConfig(**scenario.get("faults", {})), overrides,
              timer_slop=scenario.get("timer_slop_us", 0) / 1e6)
    stats = {"lookups": 0, "returned_true": 0, "returned_false": 0, "from_cache_without_tx": 0, "expired_unpurged_in_cache": 0,
             "peer_answers": 0, "returned_at_timeout": 0, "queries": 0}
    try:
        drv = Driver(w, scenario)
        st = {"hm": None, "log": [], "flush_marks": set()}

        def on_rx(t, rsock, data, addr, tx_idx, copy):
            if rsock.owner.name != "V":
                return
            if st["hm"] is None:
                st["hm"] = HostModel(w.hosts["V"].start_time)
            hm = st["hm"]
            msg, eff = hm.on_rx(t, rsock.label, data, v6sock=rsock.family == AF_INET6, src=addr)
            if eff is None:
                return
            for ident in eff.new + eff.refreshed + eff.flushed:
                e = hm.cache.e.get(ident)
                if e is not None:
                    st["log"].append((t, ident, e.created, e.ttl))
            for ident in eff.flushed:
                st["flush_marks"].add((t, ident))
            for ident in eff.removed:
                st["log"].append((t, ident, None, None))

        w.net.on_rx = on_rx
        orig_host = drv.op_host

        def op_host(op):
            orig_host(op)
            w.hosts[op["h"]].start_time = w.now

        drv.op_host = op_host
        react = scenario.get("react")
        R = _recs()

        def setup_reactor():
            p = w.peers.get("P")
            if p is None or not react:
                return
            state = {"n": 0}

            def reactor(data, addr, sock):
                msg = wire.try_decode(data)
                if msg is None or msg.is_response or addr[0] != "10.0.0.1" or state["n"] >= react["max"]:
                    return
                names = {q.name.lower() for q in msg.questions}
                if not names & {INST.lower(), S1, S2}:
                    return
                d = react["delay_us"][state["n"] % len(react["delay_us"])] / 1e6
                state["n"] += 1
                recs = [R[k] if react.get("ttl") is None else _with_ttl(R[k], react["ttl"]) for k in react["keys"]]
                resp = wire.encode(wire.response(recs))
                stats["peer_answers"] += 1
                w.loop.call_at(w.now + d, lambda: p.send(resp), context=p.new_context())

            p.reactors.append(reactor)

        async def main():
            drv.schedule_all()
            await w.sleep_until(0.000001)
            setup_reactor()
            await w.sleep_until(scenario["end"])

        w.run(main())
        _oracle(w, drv, scenario, st, stats, out)
        for e in w.loop.exceptions:
            out.add("C18.loop-exception", f"exception reached the loop handler: {e}")
            break
        out.digest = w.digest()
        out.interleaving = w.interleaving_digest()
        out.sim_seconds = w.now - w.t0
        out.decisions = w.dec.recorded
        out.stats.update({f"fault_{k}": v for k, v in w.net.fault_counts.items()})
        out.stats.update(stats)
        out.nontrivial = stats["lookups"] >= 1 and (len(st["log"]) > 0 or stats["peer_answers"] > 0)
        out.sample = {"ops": [o for o in scenario["ops"] if o["op"] in ("send", "lookup")][:6], "react": scenario.get("react"),
                      "stats": {k: v for k, v in stats.items() if v}}
    finally:
        w.teardown()
    return out


def _state_at(log, t, strict=False):
    cur = {}
    for (te, ident, created, ttl) in log:
        if te > t or (strict and te >= t):
            break
        if created is None:
            cur.pop(ident, None)
        else:
            cur[ident] = (created, ttl)
    return cur


def _unexpired_in_window(log, a, b, pred):
    """Identities matching pred that were cached and unexpired at some instant of [a, b]."""
    res = set()
    cur = {}
    events = [e for e in log if e[0] <= b]
    # state at a
    for (te, ident, created, ttl) in events:
        if te >= a:  # state strictly before a; events at a itself are handled below (either order is possible)
            break
        if created is None:
            cur.pop(ident, None)
        else:
            cur[ident] = (created, ttl)
    for ident, (created, ttl) in cur.items():
        if pred(ident) and created + 1000.0 * ttl > a * 1000.0:
            res.add(ident)
    for (te, ident, created, ttl) in events:
        if te < a or created is None:
            continue
        if pred(ident) and created + 1000.0 * ttl > te * 1000.0:
            res.add(ident)
    return res


def _oracle(w, drv, sc, st, stats, out):
    t0 = w.t0
    log = st["log"]
    inst = INST.lower()
    vq = [tx for tx in w.net.trace if tx.host == "V" and tx.msg is not None and not tx.msg.is_response
          and any(q.name.lower() in (inst, S1, S2) for q in tx.msg.questions)]
    socks = sorted({tx.sock for tx in vq})
    if socks:
        vq = [tx for tx in vq if tx.sock == socks[0]]
    stats["queries"] += len(vq)
    for lk in drv.lookups:
        e = lk["entry"]
        info = lk["info"]
        t_start = lk["t_start"]
        timeout = lk["timeout"] / 1000.0
        if e["t_done"] is None:
            out.add("C18.never-returned", f"lookup started at {t_start - t0:.6f} (timeout {lk['timeout']} ms) never returned")
            continue
        if e["exc"]:
            out.add("C18.raised", f"lookup raised {e['exc']}")
            continue
        stats["lookups"] += 1
        t_ret = e["t_done"]
        res = bool(e["result"])
        stats["returned_true" if res else "returned_false"] += 1
        # (time during which the process did not run does not count against the library)
        stalled = sum(max(0.0, min(b, t_ret) - max(a, t_start)) for a, b, hn in drv.stalls if hn == "V")
        # (with the process descheduled during the lookup, which query on the trace belongs to which lookup and what the
        # cache held "when it was sent" are no longer told by the instants alone: the query-schedule clauses are left to
        # the runs without stalls, the return and provenance clauses stay)
        stalled_near = any(a <= t_ret + 0.01 and b >= t_start - 0.01 for a, b, hn in drv.stalls if hn == "V")
        if t_ret > t_start + timeout + 0.001 + stalled:
            out.add("C18.late-return", f"lookup with timeout {lk['timeout']} ms returned after {1000 * (t_ret - t_start):.3f} ms")
        addrs = set(info.addresses_by_version(IPVersion.All))
        if res != bool(addrs):
            out.add("C18.success-iff-address", f"lookup returned {res} with addresses {sorted(addrs)}")
        if not res and t_ret < t_start + timeout - 0.001:
            out.add("C18.false-before-timeout", f"lookup returned False {1000 * (t_ret - t_start):.3f} ms after its start, "
                    f"timeout {lk['timeout']} ms")
        if stalled_near:
            # a lookup that ran while its process was descheduled (or was started in the instant the process came
            # back, together with the backlog): what the cache held "at the start" and which records arrived "during"
            # it cannot be read off the instants - only the return clauses above are judged
            stats["lookups_across_a_stall"] = stats.get("lookups_across_a_stall", 0) + 1
            continue
        if not res:
            if t_ret < t_start + timeout - 0.001:
                pass
            else:
                stats["returned_at_timeout"] += 1
            # "succeeds iff it knows an address of the service's host": what was delivered to the instance and is still
            # unexpired in its cache is known to it. Judged 50 ms before the return so that ties play no part.
            tj = t_ret - 0.05
            if tj > t_start:
                # (a cache-flush mark gives an expired-but-unpurged sibling one more second without telling anybody:
                # such a revived record is not something the lookup was ever handed)
                cur = {}
                for (te, ident, created, ttl) in log:
                    if te > tj:
                        break
                    if created is None:
                        cur.pop(ident, None)
                    elif (te, ident) in st["flush_marks"] and ident in cur and \
                            cur[ident][0] + 1000.0 * cur[ident][1] <= te * 1000.0:
                        continue
                    else:
                        cur[ident] = (created, ttl)
                live = {i: ct for i, ct in cur.items() if ct[0] + 1000.0 * ct[1] > t_ret * 1000.0}
                srvs = sorted(((ct[0], ct[1], i) for i, ct in live.items() if i[0] == inst and i[1] == wire.T_SRV))
                if srvs:
                    target = srvs[-1][2][3][3].lower()
                    have = [i for i in live if i[0] == target and i[1] in (wire.T_A, wire.T_AAAA)]
                    # (an SRV naming another host that was valid at some instant of the lookup may have been the one the
                    # lookup followed: only an unambiguous host counts)
                    seen = _unexpired_in_window(log, t_start, t_ret, lambda i: i[0] == inst and i[1] == wire.T_SRV)
                    if have and len({i[3][3].lower() for i in seen}) == 1:
                        out.add("C18.failed-although-address-cached", f"lookup returned False at {t_ret - t0:.6f} (timeout "
                                f"{lk['timeout']} ms) although the cache had held an unexpired SRV -> {target} and "
                                f"{len(have)} address record(s) of that host for at least 50 ms")
        # provenance
        srv_ok = _unexpired_in_window(log, t_start, t_ret, lambda i: i[0] == inst and i[1] == wire.T_SRV)
        txt_ok = _unexpired_in_window(log, t_start, t_ret, lambda i: i[0] == inst and i[1] == wire.T_TXT)
        at_start = _state_at(log, t_start)
        tie = at_start != _state_at(log, t_start, strict=True)  # something was delivered at the very instant of the start
        if any(c + 1000.0 * ttl <= t_start * 1000.0 for (c, ttl) in at_start.values()):
            stats["expired_unpurged_in_cache"] += 1
        if info.port is not None:
            got = (info.priority, info.weight, info.port, (info.server or "").lower())
            if not any(i[3] == got for i in srv_ok):
                out.add("C18.srv-provenance", f"lookup reports server/port {got} but the SRV records unexpired during the lookup "
                        f"were {sorted(i[3] for i in srv_ok)}", expired_source=True)
        if info.text:
            if not any(i[3] == info.text for i in txt_ok):
                out.add("C18.txt-provenance", f"lookup reports TXT {info.text!r}; TXT records unexpired during the lookup: "
                        f"{sorted(i[3] for i in txt_ok)}")
        server = (info.server or "").lower()
        addr_ok = _unexpired_in_window(log, t_start, t_ret,
                                       lambda i: i[0] == server and i[1] in (wire.T_A, wire.T_AAAA))
        ok_bytes = {i[3] if isinstance(i[3], bytes) else i[3][0] for i in addr_ok}
        bad = [a for a in addrs if a not in ok_bytes]
        if bad:
            out.add("C18.address-provenance", f"lookup reports addresses {sorted(addrs)} for {server}; address records of that "
                    f"host unexpired during the lookup: {sorted(ok_bytes)}")
        mine = [tx for tx in vq if t_start - 1e-9 <= tx.t <= t_ret + 1e-9]
        others = [x for x in drv.lookups if x is not lk and x["t_start"] <= t_ret and (x["entry"]["t_done"] or 1e18) >= t_start]
        # cache-first: does the cache suffice at the start?
        srv_now = {i: v for i, v in at_start.items() if i[0] == inst and i[1] == wire.T_SRV and v[0] + 1000.0 * v[1] > t_start * 1000.0}
        suffices_all = bool(srv_now)
        suffices_any = False
        for i in srv_now:
            sv = i[3][3]
            has = any(j[0] == sv and j[1] in (wire.T_A, wire.T_AAAA) and v[0] + 1000.0 * v[1] > t_start * 1000.0
                      for j, v in at_start.items())
            suffices_any = suffices_any or has
            suffices_all = suffices_all and has
        if tie:
            pass
        elif suffices_all and not others:
            if mine:
                out.add("C18.transmits-although-cached", f"the cache held an unexpired SRV and address at the start "
                        f"({t_start - t0:.6f}) but the lookup transmitted {len(mine)} quer{'y' if len(mine) == 1 else 'ies'}")
            if abs(t_ret - t_start) > 1e-6 or not res:
                out.add("C18.cache-not-used", f"the cache sufficed at the start but the lookup returned {res} after "
                        f"{1000 * (t_ret - t_start):.3f} ms")
            else:
                stats["from_cache_without_tx"] += 1
                all_now = {(j[3] if isinstance(j[3], bytes) else j[3][0]) for j, v in at_start.items()
                           if j[0] == server and j[1] in (wire.T_A, wire.T_AAAA) and v[0] + 1000.0 * v[1] > t_start * 1000.0}
                if addrs != all_now:
                    out.add("C18.cached-addresses-incomplete", f"loaded from the cache but reports {sorted(addrs)}, cache held "
                            f"{sorted(all_now)} unexpired")
        elif not suffices_any and not others and mine and not stalled_near:
            forced = lk["qtype"]
            first = mine[0]
            want_qu = forced != "QM"
            if abs(first.t - t_start) > 1e-6 and want_qu:
                out.add("C18.first-query-late", f"first query {1000 * (first.t - t_start):.3f} ms after the start")
            if any(q.qu != want_qu for q in first.msg.questions):
                out.add("C18.first-query-type", f"first query QU bits {[q.qu for q in first.msg.questions]} (forced={forced})")
            for tx in mine[1:]:
                if any(q.qu for q in tx.msg.questions):
                    out.add("C18.later-query-type", f"later query at {tx.t - t0:.6f} has QU questions")
                    break
            for tx in mine:
                for q in tx.msg.questions:
                    if q.type in (wire.T_SRV, wire.T_TXT):
                        stt = _state_at(log, tx.t, strict=True)
                        stt2 = _state_at(log, tx.t)
                        def fresh(sx):
                            return any(i[:3] == q.key() and v[0] + 500.0 * v[1] > tx.t * 1000.0 for i, v in sx.items())
                        if fresh(stt) and fresh(stt2):
                            out.add("C18.asks-answered-question", f"query at {tx.t - t0:.6f} asks {q!r} although a "
                                    "non-stale answer is cached")
        elif not suffices_any and not others and not mine and timeout >= 0.2 and lk["qtype"] != "QM":
            out.add("C18.no-query-sent", f"nothing usable was cached at the start ({t_start - t0:.6f}) yet the lookup sent no "
                    f"query and returned {res}")


if __name__ == "__main__":
    import checks.c18 as me

    sys.exit(runner.main(me))
