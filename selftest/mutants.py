"""Hand-written mutants used by the sensitivity self-test: {property: {id: [(file, old, new), ...]}}.
Each compiles; they are applied to a scratch copy only."""

MUTANTS = {
    "C05": {
        "is_expired_lt": [("_dns.py", "return self.created + (_EXPIRE_FULL_TIME_MS * self.ttl) <= now",
                           "return self.created + (_EXPIRE_FULL_TIME_MS * self.ttl) < now")],
        "service_cache_not_removed": [("_cache.py", "        if isinstance(record, DNSService):\n            _remove_key(self.service_cache, record.server_key, record)\n",
                                       "")],
        "flush_ge": [("_cache.py", "if (now - created_double > _ONE_SECOND) and record not in answers_rrset:",
                      "if (now - created_double >= _ONE_SECOND) and record not in answers_rrset:")],
        "reset_ttl_only_ttl": [("_dns.py", "        self.set_created_ttl(other.created, other.ttl)",
                                "        self.set_created_ttl(self.created, other.ttl)")],
        "d2_reverted": [("_cache.py", "        store.pop(record, None)\n", "")],
    },
    "C08": {
        "d19_reverted": [("_core.py", "            while self._goodbye_tasks:\n                await asyncio.wait(self._goodbye_tasks)\n", "")],
        "d20_reverted": [("_core.py", "        if registered is not None:\n            info = registered\n", "")],
        "d3_reverted": [("_core.py", "        self.out_delay_queue.async_remove_records(withdrawn)\n", "")],
        "d15_reverted": [("_core.py", "            if ttl is None and self.registry.async_get_info_name(info.key) is not info:", "            if False:")],
        "goodbye_twice": [("_core.py", "        \"\"\"Send a goodbye packet at intervals.\"\"\"\n        for i in range(_REGISTER_BROADCASTS):", "        \"\"\"Send a goodbye packet at intervals.\"\"\"\n        for i in range(2):")],
        "broadcast_addresses_inverted": [("_core.py", "broadcast_addresses = not bool(entries)", "broadcast_addresses = bool(entries)")],
        "close_goodbye_without_addresses": [("_core.py", "            self._add_broadcast_answer(out, info, 0)", "            self._add_broadcast_answer(out, info, 0, False)")],
    },
    "C04": {
        # NOTE: swapping the Added/Removed precedence in _enqueue_callback is *not* listed: under the property's
        # restrictions (no case twins inside one datagram) one datagram never yields Added and Removed for one key,
        # so that mutant is equivalent within C04's quantifier (confirmed: 4000 clean runs).
        "fire_before_cache_update": [("_services/browser.py", """                continue

            # If its expired or already exists in the cache it cannot be updated.""", """                self.async_update_records_complete()
                continue

            # If its expired or already exists in the cache it cannot be updated.""")],
        "purge_not_reported": [("_engine.py", "now, [RecordUpdate(record, record) for record in self.zc.cache.async_expire(now)]",
                                "now, [RecordUpdate(record, record) for record in self.zc.cache.async_expire(now)][:0]")],
        "goodbye_ignored_by_browser": [("_services/browser.py", "                    elif pointer.is_expired(now):", "                    elif pointer.is_expired(now) and pointer.ttl != 0:")],
    },
    "C06": {
        "add_before_notify": [("_handlers/record_manager.py", """        if updates:
            self.async_updates(now, updates)
""", """        if other_adds or address_adds:
            cache.async_add_records(address_adds)
        if updates:
            self.async_updates(now, updates)
""")],
        "removes_before_notify": [("_handlers/record_manager.py", """        if updates:
            self.async_updates(now, updates)
""", """        if removes:
            cache.async_remove_records(removes)
            removes = set()
        if updates:
            self.async_updates(now, updates)
""")],
        "listeners_not_copied": [("_handlers/record_manager.py", "        for listener in self.listeners.copy():\n            listener.async_update_records(self.zc, now, records)",
                                  "        for listener in list(self.listeners)[:1] + list(self.listeners)[:]:\n            listener.async_update_records(self.zc, now, records)")],
        "floor_all_types": [("_handlers/record_manager.py", "if record_ttl and record_type == _TYPE_PTR and record_ttl < _DNS_PTR_MIN_TTL:",
                             "if record_ttl and record_ttl < _DNS_PTR_MIN_TTL:")],
        "flush_window_ge": [("_cache.py", "if (now - created_double > _ONE_SECOND) and record not in answers_rrset:",
                      "if (now - created_double >= _ONE_SECOND) and record not in answers_rrset:")],
        "created_not_arrival": [("_handlers/record_manager.py", "                    maybe_entry.reset_ttl(record)", "                    maybe_entry.set_created_ttl(maybe_entry.created, record.ttl)")],
        "complete_only_when_new": [("_handlers/record_manager.py", "        if updates:\n            self.async_updates_complete(new)", "        if updates and new:\n            self.async_updates_complete(new)")],
    },
    "C10": {
        "d73_reverted": [("_services/browser.py", "                if self.zc.done or self.done:\n", "                if True:\n")],
        "d34_reverted": [("_services/browser.py", "        self._next_scheduled_for_alias[(scheduled_query.name.lower(), scheduled_query.alias)] = scheduled_query", "        self._next_scheduled_for_alias[('', scheduled_query.alias)] = scheduled_query"),
                         ("_services/browser.py", "        scheduled = self._next_scheduled_for_alias.pop((pointer.key, pointer.alias_key), None)", "        scheduled = self._next_scheduled_for_alias.pop(('', pointer.alias_key), None)"),
                         ("_services/browser.py", "        current = self._next_scheduled_for_alias.get((pointer.key, pointer.alias_key))", "        current = self._next_scheduled_for_alias.get(('', pointer.alias_key))"),
                         ("_services/browser.py", "            del self._next_scheduled_for_alias[(pointer.key, pointer.alias_key)]", "            del self._next_scheduled_for_alias[('', pointer.alias_key)]"),
                         ("_services/browser.py", "            del self._next_scheduled_for_alias[(query.name.lower(), query.alias)]", "            del self._next_scheduled_for_alias[('', query.alias)]")],
        "refresh_at_90": [("const.py", "_EXPIRE_REFRESH_TIME_PERCENT = 75", "_EXPIRE_REFRESH_TIME_PERCENT = 90")],
        "rescue_step_half": [("_services/browser.py", "RESCUE_RECORD_RETRY_TTL_PERCENTAGE = 0.1", "RESCUE_RECORD_RETRY_TTL_PERCENTAGE = 0.5")],
        "old_slot_never_cancelled": [("_services/browser.py", "            current.cancelled = True\n            del self._next_scheduled_for_alias[(pointer.key, pointer.alias_key)]", "            del self._next_scheduled_for_alias[(pointer.key, pointer.alias_key)]")],
        "startup_linear": [("_services/browser.py", "self._next_run = self._loop.call_later(self._startup_queries_sent**2, self._process_startup_queries)",
                            "self._next_run = self._loop.call_later(self._startup_queries_sent, self._process_startup_queries)")],
        "d4_rearm_reverted": [("_services/browser.py", "        if when < next_run.when():", "        if False and when < next_run.when():")],
        "d4_rescue_head_reverted": [("_services/browser.py", "        if schedule_rescue:\n", "        if False:\n")],
        "d8_reverted": [("_services/browser.py", "                current.ttl = int(pointer.ttl) if isinstance(pointer.ttl, float) else pointer.ttl\n                current.expire_time_millis = pointer.get_expiration_time(100)\n", "")],
        "d9_reverted": [("_services/browser.py", "self._next_scheduled_for_alias.get((pointer.key, pointer.alias_key))", "self._next_scheduled_for_alias.get((pointer.key, pointer.alias))")],
        "first_query_qm": [("_services/browser.py", "question_type = QU_QUESTION if self._question_type is None and first_request else self._question_type",
                            "question_type = self._question_type")],
        "min_spacing_ignored": [("_services/browser.py", "        if next_scheduled is not None and next_scheduled.when_millis > next_time_millis:",
                                 "        if next_scheduled is not None:")],
        "browser_cancel_keeps_scheduler": [("_services/browser.py", "        self.done = True\n        self.query_scheduler.stop()", "        self.done = True")],
        "goodbye_keeps_schedule": [("_services/browser.py", "                        self.query_scheduler.cancel_ptr_refresh(pointer)\n", "")],
    },
    "C03": {
        "d22_reverted": [("_core.py", "        info.set_server_if_missing()\n        replaced = self.registry.async_get_info_name(info.key)", "        replaced = self.registry.async_get_info_name(info.key)")],
        "d29_reverted": [("_handlers/query_handler.py", "        if type_ in (_TYPE_PTR, _TYPE_ANY) and question_lower_name == _SERVICE_TYPE_ENUMERATION_NAME:", "        if type_ == _TYPE_PTR and question_lower_name == _SERVICE_TYPE_ENUMERATION_NAME:")],
        "d30_additionals_not_purged": [("_handlers/multicast_outgoing_queue.py", "{kept(additional) for additional in additionals if not gone(additional)}", "{kept(additional) for additional in additionals}")],
        "d30_enumeration_not_purged": [("_core.py", "            withdrawn.append(self._service_type_enumeration_pointer(info.type))", "            pass")],
        "question_name_not_lowered": [("_handlers/query_handler.py", "        question_lower_name = name.lower()", "        question_lower_name = name")],
        "suppress_ge": [("_dns.py", "        return other.ttl > (record.ttl / 2)", "        return other.ttl >= (record.ttl / 2)")],
        "memo_not_cleared_on_add": [("_services/registry.py", "        info.async_clear_cache()\n", "")],
        "additional_repeats_answer": [("_handlers/answers.py", "            if additional not in sending:", "            if True:")],
        "d1_reverted": [("_services/registry.py", "            if not self.types[type_key]:\n                del self.types[type_key]\n", "")],
        "update_keeps_old": [("_services/registry.py", "        self._remove([info])\n        self._add(info)", "        if info.key not in self._services:\n            self._add(info)")],
        "txt_answers_srv_too": [("_handlers/query_handler.py", "                if type_ in (_TYPE_TXT, _TYPE_ANY):", "                if type_ in (_TYPE_TXT, _TYPE_ANY, _TYPE_SRV):")],
        "nsec_never": [("_handlers/query_handler.py", "            elif type_ in missing_types and type_ not in host_types:", "            elif False:")],
        "ptr_ttl_host": [("_services/info.py", "            override_ttl if override_ttl is not None else self.other_ttl,\n            self._name,\n            0.0,", "            override_ttl if override_ttl is not None else self.host_ttl,\n            self._name,\n            0.0,")],
    },
    "C15": {
        "indexerror_not_contained": [("_protocol/incoming.py", "DECODE_EXCEPTIONS = (IndexError, struct.error, IncomingDecodeError)", "DECODE_EXCEPTIONS = (struct.error, IncomingDecodeError)")],
        "size_guard_removed": [("_listener.py", "        if data_len > _MAX_MSG_ABSOLUTE:", "        if False and data_len > _MAX_MSG_ABSOLUTE:")],
        "deferred_not_popped": [("_listener.py", "        packets = self._deferred.pop(key, [])", "        packets = list(self._deferred.get(key, []))")],
        "d5_reverted": [("_protocol/incoming.py", "                if len(seen_pointers) >= MAX_DNS_LABELS:", "                if False:")],
        "d6_reverted": [("_protocol/incoming.py", "                if '\\ufffd' in label and len(label.encode('utf-8')) > MAX_DNS_LABEL_LENGTH:", "                if False:")],
        "invalid_still_dispatched": [("_listener.py", "            return\n\n        if not msg.is_query():", "            pass\n\n        if not msg.is_query():")],
        "read_others_unguarded": [("_protocol/incoming.py", "            try:\n                self._read_others()\n            except DECODE_EXCEPTIONS:", "            try:\n                self._read_others()\n            except IncomingDecodeError:")],
    },
    "C16": {
        "d76_reverted": [("_listener.py", "            if self.last_message.is_query() and self.heard:", "            if self.last_message.is_query() and self._registry.has_entries:")],
        "d78_reverted": [("_listener.py", "(now - _DUPLICATE_PACKET_BACK_TO_BACK_INTERVAL) < self.last_read)", "(now - _DUPLICATE_PACKET_BACK_TO_BACK_INTERVAL) < self.last_time)")],
        "guard_disabled": [("_listener.py", "            self.data == data\n", "            False and self.data == data\n")],
        "guard_interval_zero": [("const.py", "_DUPLICATE_PACKET_SUPPRESSION_INTERVAL = 1000", "_DUPLICATE_PACKET_SUPPRESSION_INTERVAL = 0")],
        "guard_skips_queries": [("_listener.py", "            and not self.last_message.has_qu_question()", "            and not self.last_message.is_query()")],
        "guard_skips_responses": [("_listener.py", "            and not self.last_message.has_qu_question()", "            and self.last_message.is_query() and not self.last_message.has_qu_question()")],
    },
    # Not listed for C17 (equivalent under its observations because of defence in depth: every scheduler pass and
    # async_send re-check `done`, and closed transports deliver nothing): browser cancel without scheduler.stop()
    # [listed under C10 instead], AsyncZeroconf.async_close without removing the service listeners, and
    # _process_ready_types without its `done` test.
    "C17": {
        "d18_reverted": [("_core.py", "            goodbye.add_done_callback(self._goodbye_tasks.discard)\n            await goodbye\n", "            goodbye.add_done_callback(self._goodbye_tasks.discard)\n            await goodbye\n            return\n")],
        "d26_close_goodbye_untracked": [("_core.py", "            self._goodbye_tasks.add(goodbye)\n            goodbye.add_done_callback(self._goodbye_tasks.discard)\n            await goodbye\n", "            await goodbye\n")],
        "send_ignores_done": [("_core.py", "        if self.done:\n            return\n\n        # If no transport is specified", "        # If no transport is specified")],
        "cleanup_timer_not_cancelled": [("_engine.py", "        self._cleanup_timer.cancel()", "        pass")],
        "no_goodbye_on_close": [("asyncio.py", "        await self.async_unregister_all_services()\n        await self.zeroconf._async_close()", "        await self.zeroconf._async_close()")],
        "goodbye_twice_on_close": [("_core.py", "        \"\"\"Send a goodbye packet at intervals.\"\"\"\n        for i in range(_REGISTER_BROADCASTS):", "        \"\"\"Send a goodbye packet at intervals.\"\"\"\n        for i in range(2):")],
        "transports_not_closed": [("_engine.py", "        for wrapped_transport in itertools.chain(self.senders, self.readers):\n            wrapped_transport.transport.close()", "        pass")],
        "threaded_browser_never_stopped": [("_services/browser.py", "        self.queue.put(None)\n", "        pass\n")],
        "sync_close_leaves_threaded_browsers": [("_core.py", "        if self.done:\n            return\n        self.remove_all_service_listeners()\n        self.done = True",
                                                 "        if self.done:\n            return\n        self.done = True")],
        "sync_close_skips_goodbye": [("_core.py", "            else:\n                self.unregister_all_services()", "            else:\n                pass")],
    },
    "C09": {
        "d23_reverted": [("_core.py", "                if server_follows:\n                    info.server = info.name", "                if False:\n                    info.server = info.name")],
        "d24_reverted": [("_core.py", "            next_time = now + _CHECK_TIME", "            next_time += _CHECK_TIME")],
        "check_time_doubled": [("const.py", "_CHECK_TIME = 175", "_CHECK_TIME = 350")],
        "two_probes": [("_core.py", "        while i < _REGISTER_BROADCASTS:\n            # check for a name conflict", "        while i < 2:\n            # check for a name conflict")],
        "conflict_check_only_first": [("_core.py", "            while self.cache.current_entry_with_name_and_alias(info.type, info.name):", "            while i == 0 and self.cache.current_entry_with_name_and_alias(info.type, info.name):")],
        "rename_keeps_counter": [("_core.py", "                next_time = now\n                i = 0\n", "                next_time = now\n")],
        "announce_without_addresses": [("_core.py", "        return asyncio.ensure_future(self._async_broadcast_service(info, _REGISTER_TIME, None))\n\n    def update_service", "        return asyncio.ensure_future(self._async_broadcast_service(info, _REGISTER_TIME, None, False))\n\n    def update_service")],
        "probe_qm": [("_core.py", "        out.add_question(DNSQuestion(info.type, _TYPE_PTR, _CLASS_IN | _CLASS_UNIQUE))", "        out.add_question(DNSQuestion(info.type, _TYPE_PTR, _CLASS_IN))")],
        "expired_conflict_counts": [("_cache.py", "                and not record.is_expired(now)\n", "")],
        "announce_interval_short": [("const.py", "_REGISTER_TIME = 225", "_REGISTER_TIME = 125")],
        "rename_skips_number": [("_core.py", "                next_instance_number += 1\n", "                next_instance_number += 2\n")],
        "ptr_flush_bit": [("_services/info.py", "            self.type,\n            _TYPE_PTR,\n            _CLASS_IN,", "            self.type,\n            _TYPE_PTR,\n            _CLASS_IN_UNIQUE,")],
    },
    "C11": {
        "d21_reverted": [("_listener.py", "            and (addrs[1] == _MDNS_PORT or addrs[:2] == self.last_message.source)\n", "")],
        "recent_is_half": [("_dns.py", "_RECENT_TIME_MS = 250", "_RECENT_TIME_MS = 500")],
        "unicast_via_first_sender": [("_handlers/query_handler.py", "            self.zc.async_send(out, addr, port, v6_flow_scope, transport)", "            self.zc.async_send(out, addr, port, v6_flow_scope, self.zc.engine.senders[0])")],
        "unicast_built_as_multicast": [("_handlers/answers.py", "    out = DNSOutgoing(_FLAGS_QR_RESPONSE_AA, False, id_)", "    out = DNSOutgoing(_FLAGS_QR_RESPONSE_AA, True, id_)")],
        "aa_flag_dropped": [("_handlers/answers.py", "_FLAGS_QR_RESPONSE_AA = _FLAGS_QR_RESPONSE | _FLAGS_AA", "_FLAGS_QR_RESPONSE_AA = _FLAGS_QR_RESPONSE")],
        "legacy_no_question_echo": [("_handlers/answers.py", "    if ucast_source:\n        for question in questions:", "    if False:\n        for question in questions:")],
        "qu_always_unicast": [("_handlers/query_handler.py", "            if not self._has_mcast_within_one_quarter_ttl(record):\n                self._mcast_now.add(record)\n            elif not self._is_probe:", "            if False:\n                self._mcast_now.add(record)\n            elif not self._is_probe:")],
        "qu_nonprobe_always_multicast": [("_handlers/query_handler.py", "            elif not self._is_probe:\n                self._ucast.add(record)", "            elif False:\n                self._ucast.add(record)")],
        "probe_not_immediate": [("_handlers/query_handler.py", "            if self._is_probe:\n                self._mcast_now.add(answer)\n                continue\n", "")],
        "legacy_port_test_wrong": [("_handlers/query_handler.py", "        ucast_source = port != _MDNS_PORT", "        ucast_source = port < 1024")],
        "ptr_gets_flush": [("_protocol/outgoing.py", "        if record.unique is True and self.multicast:", "        if self.multicast:")],
        # multicast id forced to 0 in packets(): equivalent here, every multicast DNSOutgoing the stack builds has id 0 anyway
    },
    "C12": {
        "d25_reverted": [("_handlers/query_handler.py", "        query_res = _QueryResponse(self.cache, questions, is_probe, msg.now if answered_at is None else answered_at)", "        query_res = _QueryResponse(self.cache, msgs[0]._questions, is_probe, msg.now if answered_at is None else answered_at)")],
        "d58_reverted": [("_listener.py", "        key = addr if port == _MDNS_PORT else (addr, port)", "        key = addr"), ("_listener.py", "        key = addr if port == _MDNS_PORT else (addr, port)", "        key = addr")],
        "d69_reverted": [("_handlers/query_handler.py", "msg.now if answered_at is None else answered_at)", "msg.now)")],
        "aggregation_600": [("_core.py", "_AGGREGATION_DELAY = 500  # ms", "_AGGREGATION_DELAY = 700  # ms")],
        "protected_extra_delay_900": [("_core.py", "self.out_delay_queue = MulticastOutgoingQueue(self, _ONE_SECOND, _PROTECTED_AGGREGATION_DELAY)", "self.out_delay_queue = MulticastOutgoingQueue(self, 900, _PROTECTED_AGGREGATION_DELAY)")],
        "last_second_le": [("_handlers/query_handler.py", "self._now - maybe_entry.created < _ONE_SECOND)", "self._now - maybe_entry.created < 500)")],
        "tc_hold_not_restarted": [("_listener.py", "        self._cancel_any_timers_for_addr(key)\n        self._timers[key] = loop.call_at(", "        if key in self._timers:\n            return\n        self._timers[key] = loop.call_at(")],
        "tc_delay_short": [("_listener.py", "_TC_DELAY_RANDOM_INTERVAL = (400, 500)", "_TC_DELAY_RANDOM_INTERVAL = (100, 200)")],
        "jitter_too_small": [("_handlers/answers.py", "MULTICAST_DELAY_RANDOM_INTERVAL = (20, 120)", "MULTICAST_DELAY_RANDOM_INTERVAL = (0, 10)")],
        "single_ptr_immediate": [("_handlers/query_handler.py", "_RESPOND_IMMEDIATE_TYPES = {_TYPE_NSEC, _TYPE_SRV, *_ADDRESS_RECORD_TYPES}", "_RESPOND_IMMEDIATE_TYPES = {_TYPE_NSEC, _TYPE_SRV, _TYPE_PTR, *_ADDRESS_RECORD_TYPES}")],
        "queue_never_flushes_second_group": [("_handlers/multicast_outgoing_queue.py", "        if len(self.queue):\n            # If there are still groups in the queue that are not ready to send\n            # be sure we schedule them to go out later\n            loop.call_at(loop.time() + millis_to_seconds(self.queue[0].send_after - now), self.async_ready)", "        if False:\n            pass")],
        "tc_known_answers_first_packet_only": [("_handlers/query_handler.py", "            else:\n                answers.extend(msg.answers())", "            elif msg is msgs[0]:\n                answers.extend(msg.answers())")],
        "d10_reverted": [("_handlers/query_handler.py", "        now = current_time_millis()\n        if question_answers.mcast_aggregate:", "        now = first_packet.now\n        if question_answers.mcast_aggregate:")],
        # not listed: async_ready without _remove_answers_from_queue re-sends an answer that a later, already queued
        # group also holds; each copy still lies in the window of its own query, which is all C12 states
    },
    "C13": {
        "stale_replaced_by_expired": [("_services/browser.py", "            if not record.is_stale(now_millis)\n", "            if not record.is_expired(now_millis)\n")],
        "history_window_1999": [("const.py", "_DUPLICATE_QUESTION_INTERVAL = 999", "_DUPLICATE_QUESTION_INTERVAL = 1999")],
        "history_never_suppresses": [("_history.py", "        if previous_known_answers - known_answers:\n            return False\n        return True", "        return False")],
        "qu_recorded_in_history": [("_services/browser.py", "        if not qu_question and question_history.suppresses(question, now_millis, known_answers):", "        if question_history.suppresses(question, now_millis, known_answers):"), ("_services/browser.py", "        if not qu_question:\n            question_history.add_question_at_time(question, now_millis, known_answers)", "        question_history.add_question_at_time(question, now_millis, known_answers)")],
        "lookup_first_request_never_cleared": [("_services/info.py", "                    first_request = False\n", "")],
        # not listed: remaining-vs-absolute TTL of a *lookup's* known answers is unreachable: a lookup that has an
        # unexpired address record is complete and never queries, and SRV/TXT questions are omitted when answered
        "lookup_asks_srv_despite_answer": [("_services/info.py", "        if skip_if_known_answers and known_answers:\n            return\n", "")],
        "browser_known_answers_dropped": [("_services/browser.py", "        for answer in answers:\n            self.out.add_answer_at_time(answer, self.now_millis)", "        for answer in list(answers)[:0]:\n            self.out.add_answer_at_time(answer, self.now_millis)")],
        "tc_flag_never": [("_protocol/outgoing.py", "            if has_more_to_add and self.is_query():", "            if False:")],
        "d12_reverted": [("_handlers/query_handler.py", "                        for record in known_answers_by_name.get(question.key, ())\n                        if question.type in (record.type, _TYPE_ANY)", "                        for record in known_answers.lookup_set()\n                        if True")],
        "history_subset_test_inverted": [("_history.py", "        if previous_known_answers - known_answers:", "        if known_answers - previous_known_answers:")],
    },
    "C18": {
        "d32_reverted": [("_services/info.py", "            if type(record_update.new) is DNSService:\n                updated |= self._process_record_threadsafe(zc, record_update.new, now)\n        for record_update in records:\n            if type(record_update.new) is not DNSService:\n                updated", "            if False:\n                updated |= self._process_record_threadsafe(zc, record_update.new, now)\n        for record_update in records:\n            if True:\n                updated")],
        "expired_records_used": [("_services/info.py", "        if record.is_expired(now):\n            return False\n\n        record_key = record.key", "        record_key = record.key")],
        "deadline_off_by_one_pass": [("_services/info.py", "                if last <= now:\n                    return False", "                if last + 300 <= now:\n                    return False")],
        "complete_without_address": [("_services/info.py", "        return bool(self.text is not None and (self._ipv4_addresses or self._ipv6_addresses))", "        return bool(self.text is not None and (self.port is not None or self._ipv4_addresses or self._ipv6_addresses))")],
        "first_request_inverted": [("_services/info.py", "                    this_question_type = question_type or QU_QUESTION if first_request else QM_QUESTION", "                    this_question_type = question_type or QM_QUESTION if first_request else QU_QUESTION")],
        "wait_ignores_deadline": [("_services/info.py", "                await self.async_wait(min(next_, last) - now, zc.loop)", "                await self.async_wait(next_ - now, zc.loop)")],
        "d13_reverted": [("_services/info.py", "            cache.get_all_by_details(self._name, _TYPE_SRV, _CLASS_IN), key=_created_of\n        ):", "            cache.get_all_by_details(self._name, _TYPE_SRV, _CLASS_IN), key=_created_of\n        )[-1:]:")],
        "expired_addresses_loaded": [("_services/info.py", "            if record.is_expired(now):\n                continue\n            ip_addr = get_ip_address_object_from_record(record)", "            ip_addr = get_ip_address_object_from_record(record)")],
        "addresses_not_reloaded_on_srv_change": [("_services/info.py", "            if old_server_key != self.server_key:\n                self._set_ipv4_addresses_from_cache(zc, now)\n                self._set_ipv6_addresses_from_cache(zc, now)", "            if False:\n                pass")],
        # not listed: dropping the early `return True` after _load_from_cache is equivalent (the query loop is
        # guarded by `while not self._is_complete`)
    },
    "C07": {
        "d28_reverted": [("_services/info.py", "    return (record.created, record.ttl)", "    return (0.0, 0.0)")],
        "two_announcements": [("_core.py", "_REGISTER_BROADCASTS = 3", "_REGISTER_BROADCASTS = 1")],
        # not listed (responder_drops_ptr_additionals): equivalent under the single-loss fault model: PTR answers without SRV/TXT/address additionals only cost extra queries: lookups from add_service still resolve within 3 s
        # not listed (duplicate_question_interval_5s): equivalent under the single-loss fault model: a 20 s duplicate-question window withholds later start-up queries, which needs two losses to matter (the first QU query is never suppressed)
        "browser_one_startup_query": [("_services/browser.py", "STARTUP_QUERIES = 4", "STARTUP_QUERIES = 1")],
        "d15_reverted": [("_core.py", "            if ttl is None and self.registry.async_get_info_name(info.key) is not info:", "            if False:")],
        "d17_reverted": [("_core.py", "        if replaced is not None:\n            # Answers built from the replaced ServiceInfo", "        if False:\n            # Answers built from the replaced ServiceInfo")],
        "d16_reverted": [("_listener.py", "                    protocol.undone = True", "                    protocol.undone = False")],
        "d74_reverted": [("const.py", "_DUPLICATE_PACKET_BACK_TO_BACK_INTERVAL = 20  # ms", "_DUPLICATE_PACKET_BACK_TO_BACK_INTERVAL = 50  # ms")],
        "d75_reverted": [("_core.py", "record for record in previous_addresses if record not in current and record not in shared", "record for record in previous_addresses if record not in current and record not in shared and replaced is not info")],
        "d77_reverted": [("_core.py", "                    remaining = self._goodbye_without_advertised(out, current)\n", "                    remaining = None\n")],
        "address_goodbye_once": [("_core.py", "        \"\"\"Withdraw the addresses an update took away from a host, at intervals.\"\"\"\n        for i in range(_REGISTER_BROADCASTS):", "        \"\"\"Withdraw the addresses an update took away from a host, at intervals.\"\"\"\n        for i in range(1):")],
        "goodbye_not_processed_by_browser": [("_services/browser.py", "                    elif pointer.is_expired(now):", "                    elif False:")],
        "responder_ignores_qm_ptr": [("_handlers/query_handler.py", "        if type_ in (_TYPE_PTR, _TYPE_ANY):\n            services = self.registry.async_get_infos_type(question_lower_name)", "        if type_ in (_TYPE_ANY,):\n            services = self.registry.async_get_infos_type(question_lower_name)")],
        "update_not_announced": [("_core.py", "                goodbye.add_done_callback(self._goodbye_tasks.discard)\n        return asyncio.ensure_future(self._async_broadcast_service(info, _REGISTER_TIME, None))", "                goodbye.add_done_callback(self._goodbye_tasks.discard)\n        return asyncio.ensure_future(asyncio.sleep(0))")],
    },
}
