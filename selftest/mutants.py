"""Hand-written mutants used by the sensitivity self-test: {property: {id: [(file, old, new), ...]}}.
Each compiles; they are applied to a scratch copy only."""

MUTANTS = {
    "C05": {
        "is_expired_lt": [("_dns.py", "return self.created + (_EXPIRE_FULL_TIME_MS * self.ttl) <= now",
                           "return self.created + (_EXPIRE_FULL_TIME_MS * self.ttl) < now")],
        "service_cache_not_removed": [("_cache.py", "        if isinstance(record, DNSService):\n            _remove_key(self.service_cache, record.server_key, record)\n",
                                       "")],
        "flush_ge": [("_cache.py", "if (now - created_double > _ONE_SECOND) and record not in answers_rrset:",
                      "if (now - created_double >= _ONE_SECOND) and record not in answers_rrset:")],
        "reset_ttl_only_ttl": [("_dns.py", "        self.set_created_ttl(other.created, other.ttl)",
                                "        self.set_created_ttl(self.created, other.ttl)")],
        "d2_reverted": [("_cache.py", "        store.pop(record, None)\n", "")],
    },
    "C08": {
        "d3_reverted": [("_core.py", "        self.out_delay_queue.async_remove_records(withdrawn)\n", "")],
        "goodbye_twice": [("_core.py", "        for i in range(_REGISTER_BROADCASTS):\n            if i != 0:\n                await asyncio.sleep(millis_to_seconds(interval))",
                           "        for i in range(_REGISTER_BROADCASTS if ttl != 0 else 2):\n            if i != 0:\n                await asyncio.sleep(millis_to_seconds(interval))")],
        "broadcast_addresses_inverted": [("_core.py", "broadcast_addresses = not bool(entries)", "broadcast_addresses = bool(entries)")],
        "close_goodbye_without_addresses": [("_core.py", "            self._add_broadcast_answer(out, info, 0)", "            self._add_broadcast_answer(out, info, 0, False)")],
    },
}
