"""Determinism self-test: the same case seeds must give identical event-log digests in two fresh interpreters
(PYTHONHASHSEED=0), and identical verdicts under another PYTHONHASHSEED (record order inside packets follows str
hashing there, so digests may differ but verdicts must not).

usage: python -m selftest.determinism [--seeds N] [C08 ...]
"""
import json
import os
import subprocess
import sys
from concurrent.futures import ThreadPoolExecutor

VERIF = os.path.dirname(os.path.dirname(os.path.abspath(__file__)))
ALL = ["C03", "C04", "C05", "C06", "C07", "C08", "C09", "C10", "C11", "C12", "C13", "C15", "C16", "C17", "C18"]


def run(prop, seeds, hashseed):
    env = dict(os.environ, PYTHONHASHSEED=str(hashseed))
    pr = subprocess.run(["/venv/bin/python", "-m", "selftest._digest", prop, "quick"] + [str(s) for s in seeds],
                        cwd=VERIF, env=env, capture_output=True, text=True, timeout=600)
    if pr.returncode != 0:
        raise RuntimeError(f"{prop}: {pr.stderr[-500:]}")
    return json.loads(pr.stdout.strip().splitlines()[-1])


def one(prop, n):
    from sim.runner import case_seed

    seeds = [case_seed(12345, i) for i in range(n)]
    a = run(prop, seeds, 0)
    b = run(prop, seeds, 0)
    c = run(prop, seeds, 7)
    same_digest = all(a[str(s)][0] == b[str(s)][0] for s in seeds)
    same_verdict = all(a[str(s)][1] == c[str(s)][1] for s in seeds)
    return prop, same_digest, same_verdict


def main():
    args = sys.argv[1:]
    n = 6
    props = []
    i = 0
    while i < len(args):
        if args[i] == "--seeds":
            n = int(args[i + 1]); i += 2
        else:
            props.append(args[i].upper()); i += 1
    props = props or ALL
    sys.path.insert(0, VERIF)
    bad = 0
    with ThreadPoolExecutor(max_workers=8) as ex:
        for prop, d, v in ex.map(lambda p: one(p, n), props):
            print(f"{prop}: digests identical in two fresh interpreters: {d}; verdicts identical under PYTHONHASHSEED=7: {v}")
            if not (d and v):
                bad += 1
    print("determinism self-test", "FAILED" if bad else "ok", f"({len(props)} checks x {n} seeds x 3 interpreters)")
    return 1 if bad else 0


if __name__ == "__main__":
    sys.exit(main())
