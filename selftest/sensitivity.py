"""Sensitivity self-test: apply realistic mutants of /repo/src in a scratch copy and confirm the
check of the property they break reports a violation within a small budget.

usage: python -m selftest.sensitivity [C05 ...] [--budget S] [--only mutant-id]
Scratch copies live under /dev/shm (or $TMPDIR) and are removed afterwards. /repo is never touched.
"""
import json
import os
import shutil
import subprocess
import sys
import tempfile
import time

from selftest.mutants import MUTANTS

VERIF = os.path.dirname(os.path.dirname(os.path.abspath(__file__)))


def run_mutant(prop, mid, edits, budget):
    base = "/dev/shm" if os.path.isdir("/dev/shm") else tempfile.gettempdir()
    d = tempfile.mkdtemp(prefix="zc-mut-", dir=base)
    try:
        shutil.copytree("/repo/src", os.path.join(d, "src"))
        for rel, old, new in edits:
            p = os.path.join(d, "src", "zeroconf", rel)
            s = open(p).read()
            if s.count(old) < 1:
                return {"mutant": mid, "status": "STALE", "detail": f"pattern not found in {rel}"}
            open(p, "w").write(s.replace(old, new, 1))
        env = dict(os.environ, VERIF_REPO_SRC=os.path.join(d, "src"), PYTHONHASHSEED="0")
        t = time.time()
        pr = subprocess.run([sys.executable, "-m", f"checks.{prop.lower()}", "--budget", str(budget), "--no-evidence"],
                            cwd=VERIF, env=env, capture_output=True, text=True, timeout=budget + 600)
        clauses = sorted({ln.split(":")[0].strip() for ln in pr.stdout.splitlines() if ln.startswith("  C")})
        return {"mutant": mid, "status": "CAUGHT" if pr.returncode == 1 else ("MISSED" if pr.returncode == 0 else "ERROR"),
                "rc": pr.returncode, "clauses": clauses, "wall": round(time.time() - t, 1),
                "tail": pr.stdout[-300:] if pr.returncode != 1 else "", "err": pr.stderr[-600:] if pr.returncode == 2 else ""}
    finally:
        shutil.rmtree(d, ignore_errors=True)


def main():
    args = sys.argv[1:]
    budget = 20
    only = None
    props = []
    i = 0
    while i < len(args):
        if args[i] == "--budget":
            budget = float(args[i + 1])
            i += 2
        elif args[i] == "--only":
            only = args[i + 1]
            i += 2
        else:
            props.append(args[i].upper())
            i += 1
    props = props or sorted(MUTANTS)
    results = {}
    bad = 0
    for prop in props:
        for mid, edits in MUTANTS.get(prop, {}).items():
            if only and mid != only:
                continue
            r = run_mutant(prop, mid, edits, budget)
            results.setdefault(prop, []).append(r)
            print(prop, json.dumps(r))
            sys.stdout.flush()
            if r["status"] != "CAUGHT":
                bad += 1
    if not only and len(props) == len(MUTANTS):
        with open(os.path.join(VERIF, "selftest", "sensitivity.json"), "w") as f:
            json.dump({"budget_s": budget, "results": results}, f, indent=1)
    return 1 if bad else 0


if __name__ == "__main__":
    sys.exit(main())
