"""Helper: python -m selftest._digest C08 tier seed [seed ...] -> JSON {seed: [digest, [clauses]]} on stdout."""
import importlib
import json
import sys
import warnings

warnings.simplefilter("ignore")
sys.path.insert(0, "/verif")
from sim import runner  # noqa: E402

prop, tier = sys.argv[1], sys.argv[2]
check = importlib.import_module("checks." + prop.lower())
res = {}
for s in sys.argv[3:]:
    _, out = runner.run_case(check, int(s), tier)
    res[s] = [out.digest, sorted({v.clause for v in out.violations})]
print(json.dumps(res))
