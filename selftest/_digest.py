"""Helper: python -m selftest._digest C08 tier seed [seed ...] -> JSON {seed: [digest, [clauses]]} on stdout."""
import importlib
import json
import sys
import warnings

warnings.simplefilter("ignore")
sys.path.insert(0, "/verif")
from sim import runner  # noqa: E402

prop, tier = sys.argv[1], sys.argv[2]
check = importlib.import_module("checks." + prop.lower())
res = {}
for s in sys.argv[3:]:
    _, out = runner.run_case(check, int(s), tier)
    # the verdict: the clauses a check would report as violations. Whether a LISTED finding shows in a given run may
    # depend on the order of the records inside a packet, which follows str hashing (D7: the second processing of a
    # duplicated QU query shifts an aggregated answer only when the answer groups come out in a certain order)
    known = runner.load_known(prop)
    res[s] = [out.digest, sorted({v.clause for v in out.violations if runner.match_known(v, known) is None})]
print(json.dumps(res))
