"""MANIFEST.setup_cmd: nothing to build; verify the environment the checks rely on."""
import sys

sys.path.insert(0, "/verif")
from sim import world  # noqa: E402

world.assert_pure_python()
world.install_seams()
import hashlib  # noqa: E402
import os  # noqa: E402

assert os.environ.get("PYTHONHASHSEED") == "0", "setup must run with PYTHONHASHSEED=0"
print("setup ok: zeroconf", world.zeroconf.__version__, "from", world.zeroconf.__file__, "python", sys.version.split()[0])
