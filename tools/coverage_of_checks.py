#!/usr/bin/env python3
"""Which lines of /repo/src/zeroconf do the simulated runs execute?  (a reach measure for the generators)

usage: PYTHONHASHSEED=0 /venv/bin/python tools/coverage_of_checks.py [--cases N] [--out DIR] [C03 C04 ...]
Runs N seeded cases of each check in-process under coverage.py (thorough-tier generators) and prints, per source file,
the executed share and the line ranges never reached by any check.  Not a check: it decides nothing.
"""
import importlib
import os
import sys

sys.path.insert(0, os.path.dirname(os.path.dirname(os.path.abspath(__file__))))
import coverage  # noqa: E402


def main():
    args = sys.argv[1:]
    n = 400
    outdir = "/tmp/cov"
    ids = []
    i = 0
    while i < len(args):
        if args[i] == "--cases":
            n = int(args[i + 1]); i += 2
        elif args[i] == "--out":
            outdir = args[i + 1]; i += 2
        else:
            ids.append(args[i]); i += 1
    ids = ids or ["C03", "C04", "C05", "C06", "C07", "C08", "C09", "C10", "C11", "C12", "C13", "C15", "C16", "C17", "C18"]
    os.makedirs(outdir, exist_ok=True)
    cov = coverage.Coverage(data_file=os.path.join(outdir, ".coverage"), include=["*/src/zeroconf/*"], branch=True)
    cov.start()
    from sim import runner

    for cid in ids:
        check = importlib.import_module(f"checks.{cid.lower()}")
        for k in range(n):
            seed = runner.case_seed(12345, k)
            try:
                runner.run_case(check, seed, "thorough" if k % 2 else "quick")
            except Exception as e:  # noqa
                print("harness error", cid, seed, repr(e)[:200])
        print("ran", cid, flush=True)
    cov.stop()
    cov.save()
    cov.report(show_missing=True, skip_empty=True)


if __name__ == "__main__":
    main()
