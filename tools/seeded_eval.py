#!/usr/bin/env python3
"""Run the checks against the independently written breaking changes in /verif/seeded/<id>/.

For every seeded/<id>/patch.diff: copy /repo/src to a scratch directory, apply the patch there, run the quick check of
the property named in meta.json (and optionally others) against the scratch copy, record CAUGHT / MISSED.
usage: tools/seeded_eval.py [id ...] [--budget S] [--also C04,C05]
"""
import json
import os
import shutil
import subprocess
import sys
import tempfile
import time

VERIF = os.path.dirname(os.path.dirname(os.path.abspath(__file__)))


def main():
    args = sys.argv[1:]
    budget = 30
    also = []
    ids = []
    i = 0
    while i < len(args):
        if args[i] == "--budget":
            budget = float(args[i + 1]); i += 2
        elif args[i] == "--also":
            also = args[i + 1].split(","); i += 2
        else:
            ids.append(args[i]); i += 1
    root = os.path.join(VERIF, "seeded")
    ids = ids or sorted(d for d in os.listdir(root) if os.path.isdir(os.path.join(root, d)))
    rc_all = 0
    for sid in ids:
        d = os.path.join(root, sid)
        meta = json.load(open(os.path.join(d, "meta.json")))
        props = [meta["property"]] + [p for p in also if p != meta["property"]]
        if meta.get("obsolete"):
            print(sid, "OBSOLETE (" + meta["obsolete"][:120] + " ...)", flush=True)
            continue
        base = "/dev/shm" if os.path.isdir("/dev/shm") else tempfile.gettempdir()
        scratch = tempfile.mkdtemp(prefix="zc-seed-", dir=base)
        try:
            shutil.copytree("/repo/src", os.path.join(scratch, "src"))
            pr = subprocess.run(["patch", "-p1", "-s", "-F3", "-d", scratch, "-i", os.path.join(d, "patch.diff")],
                                capture_output=True, text=True)
            if pr.returncode != 0:
                # the code the change was written against has been repaired/rewritten since: kept for the record
                print(sid, "STALE (the patch no longer applies to /repo)", flush=True)
                continue
            for prop in props:
                env = dict(os.environ, VERIF_REPO_SRC=os.path.join(scratch, "src"), PYTHONHASHSEED="0")
                t = time.time()
                r = subprocess.run(["/venv/bin/python", "-m", f"checks.{prop.lower()}", "--budget", str(budget), "--no-evidence"],
                                   cwd=VERIF, env=env, capture_output=True, text=True, timeout=budget + 900)
                clauses = sorted({ln.split(":")[0].strip() for ln in r.stdout.splitlines() if ln.startswith("  C")})
                status = "CAUGHT" if r.returncode == 1 else ("MISSED" if r.returncode == 0 else "ERROR")
                print(sid, prop, status, clauses, f"{time.time() - t:.0f}s", flush=True)
                if status == "CAUGHT" and not clauses:
                    status = "ERROR"
                    print(r.stdout[-300:], r.stderr[-300:])
                if status != "CAUGHT" and prop == meta["property"]:
                    rc_all = 1
                    print(r.stdout[-400:], r.stderr[-400:])
        finally:
            shutil.rmtree(scratch, ignore_errors=True)
    return rc_all


if __name__ == "__main__":
    sys.exit(main())
