#!/bin/sh
# usage: tools/confirm_seed.sh C05   -> confirms /tmp/wt-C05/seeded in a fresh worktree, writes /tmp/confirm-C05.log
id=$1
src=/tmp/wt-$id/seeded
wt=/tmp/confirm-$id
log=/tmp/confirm-$id.log
rm -rf $wt; git -C /repo worktree prune; git -C /repo worktree add -q --detach $wt HEAD || exit 2
{
echo "== $id on $(git -C /repo log --format=%h -1)"
demo=$(ls $src | grep -E '^(test_demo|demo)\.py$' | head -1)
cp $src/$demo $wt/
run_demo() {
  if [ "$demo" = "test_demo.py" ]; then (cd $wt && PYTHONPATH=$wt/src timeout 300 /venv/bin/python -m pytest -q -p no:cacheprovider --no-cov -x test_demo.py >/tmp/confirm-$id.demo 2>&1; echo $?)
  else (cd $wt && PYTHONPATH=$wt/src timeout 300 /venv/bin/python demo.py >/tmp/confirm-$id.demo 2>&1; echo $?); fi
}
echo "demo without change: rc=$(run_demo)"
(cd $wt && git apply $src/patch.diff) && echo "patch applied" || echo "PATCH FAILED"
echo "demo with change: rc=$(run_demo)"; tail -3 /tmp/confirm-$id.demo
rm -f $wt/$demo
echo "suite with change (isolated netns):"
(cd $wt && PYTHONPATH=$wt/src timeout 1500 unshare -n sh -c 'ip link set lo up; ip route add 224.0.0.0/4 dev lo; /venv/bin/python -m pytest -q -p no:cacheprovider --timeout=600 -q tests 2>&1 | tail -4')
} > $log 2>&1
git -C /repo worktree remove --force $wt
cat $log
