#!/bin/sh
# usage: tools/confirm_seed.sh <worktree-of-the-seed-agent> <tag>
# confirms <worktree>/seeded in a FRESH worktree of /repo HEAD; writes /tmp/confirm-<tag>.log
srcw=$1; tag=$2
src=$srcw/seeded
wt=/tmp/confirm-$tag
log=/tmp/confirm-$tag.log
rm -rf $wt; git -C /repo worktree prune; git -C /repo worktree add -q --detach $wt HEAD || exit 2
{
echo "== $tag on $(git -C /repo log --format=%h -1)"
demo=$(ls $src | grep -E '^(test_demo|demo)\.py$' | head -1)
cp $src/$demo $wt/
run_demo() {
  if [ "$demo" = "test_demo.py" ]; then (cd $wt && PYTHONPATH=$wt/src timeout 300 /venv/bin/python -m pytest -q -p no:cacheprovider --no-cov -x test_demo.py >/tmp/confirm-$tag.demo 2>&1; echo $?)
  else (cd $wt && PYTHONPATH=$wt/src timeout 300 /venv/bin/python demo.py >/tmp/confirm-$tag.demo 2>&1; echo $?); fi
}
echo "demo without change: rc=$(run_demo)"
(cd $wt && git apply $src/patch.diff) && echo "patch applied" || echo "PATCH FAILED"
echo "demo with change: rc=$(run_demo)"; tail -3 /tmp/confirm-$tag.demo
rm -f $wt/$demo
echo "suite with change (isolated netns):"
(cd $wt && PYTHONPATH=$wt/src timeout 1500 unshare -n sh -c 'ip link set lo up; ip route add 224.0.0.0/4 dev lo; /venv/bin/python -m pytest -q -p no:cacheprovider --timeout=600 -q tests 2>&1 | tail -4')
} > $log 2>&1
git -C /repo worktree remove --force $wt
cat $log
