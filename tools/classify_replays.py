import json, os, subprocess, sys, glob
from concurrent.futures import ThreadPoolExecutor
files = sorted(glob.glob('/verif/replays/*.json'))
def run(f, src):
    prop = json.load(open(f))['property'].lower()
    env = dict(os.environ, PYTHONHASHSEED='0')
    if src: env['VERIF_REPO_SRC'] = src
    try:
        r = subprocess.run(['/venv/bin/python','-m',f'checks.{prop}','--replay',f],cwd='/verif',env=env,capture_output=True,text=True,timeout=120)
        return r.returncode
    except Exception as e:
        return -1
def both(f):
    return f, run(f,'/tmp/base/src'), run(f,None)
with ThreadPoolExecutor(12) as ex:
    for f, b, h in ex.map(both, files):
        if b == 1 and h != 1:
            d = json.load(open(f))
            print(os.path.basename(f), d['clause'], d['detail'][:140].replace('\n',' '), flush=True)
