#!/bin/sh
# usage: tools/soak.sh "C03 C04 ..." budget_s "seed seed ..."   -> prints one line per run, violations in full
cd "$(dirname "$0")/.." || exit 2
for c in $1; do for s in $3; do
  out=$(VERIF_SEED=$s ./check $c --budget $2 --no-evidence 2>&1)
  rc=$?
  echo "$c seed=$s rc=$rc $(echo "$out" | tail -1)"
  [ $rc -ne 0 ] && echo "$out" | grep -E "^  C|VIOLATION|HARNESS" | cut -c1-600
done; done
