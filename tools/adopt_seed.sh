#!/bin/sh
# usage: tools/adopt_seed.sh C05  -> confirm /tmp/wt-C05/seeded, copy to /verif/seeded/C05/, append confirmation to meta.json
id=$1
cd /verif || exit 2
tools/confirm_seed.sh $id > /tmp/adopt-$id.out 2>&1
mkdir -p seeded/$id
cp /tmp/wt-$id/seeded/patch.diff seeded/$id/
for f in test_demo.py demo.py meta.json; do [ -f /tmp/wt-$id/seeded/$f ] && cp /tmp/wt-$id/seeded/$f seeded/$id/; done
python3 - "$id" <<'PY'
import json,sys
sid=sys.argv[1]
p=f"/verif/seeded/{sid}/meta.json"
try: m=json.load(open(p))
except Exception: m={"property":sid}
m["property"]=sid
log=open(f"/tmp/confirm-{sid}.log").read()
m["confirmed_by_main_session"]={"what_i_ran":"tools/confirm_seed.sh: fresh git worktree of /repo HEAD; demo without the change; git apply patch.diff; demo with the change; whole test suite with the change in an isolated network namespace (unshare -n, lo up, multicast route)","log":log[-1500:]}
json.dump(m,open(p,"w"),indent=1)
PY
tail -12 /tmp/adopt-$id.out
