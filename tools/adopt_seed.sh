#!/bin/sh
# usage: tools/adopt_seed.sh <worktree-of-the-seed-agent> <tag> <property>
# confirm, then copy to /verif/seeded/<tag>/ with the confirmation appended to meta.json
srcw=$1; tag=$2; prop=$3
cd /verif || exit 2
tools/confirm_seed.sh $srcw $tag > /tmp/adopt-$tag.out 2>&1
mkdir -p seeded/$tag
cp $srcw/seeded/patch.diff seeded/$tag/
for f in test_demo.py demo.py meta.json; do [ -f $srcw/seeded/$f ] && cp $srcw/seeded/$f seeded/$tag/; done
python3 - "$tag" "$prop" <<'PY'
import json,sys
tag,prop=sys.argv[1],sys.argv[2]
p=f"/verif/seeded/{tag}/meta.json"
try: m=json.load(open(p))
except Exception: m={}
m["property"]=prop
log=open(f"/tmp/confirm-{tag}.log").read()
m["confirmed_by_main_session"]={"what_i_ran":"tools/confirm_seed.sh: fresh git worktree of /repo HEAD; demo without the change; git apply patch.diff; demo with the change; whole test suite with the change in an isolated network namespace (unshare -n, lo up, multicast route)","log":log[-1500:]}
json.dump(m,open(p,"w"),indent=1)
PY
tail -12 /tmp/adopt-$tag.out
