#!/usr/bin/env python3
"""Turn a defect that is repaired in /repo's WORKING TREE (not yet committed) into regression histories.

usage: tools/make_regression.py C16 D52 short-name [--budget 40] [--clause C16.trace-differs] [--seed N]
The pre-repair tree is /repo's HEAD (git archive into a scratch directory under /dev/shm); the check runs against it until it
reports violations, every minimised replay that fails there and passes on the working tree is copied to
/verif/regression/<PROP>/<defect>-<name>[-k].json with a 'defect' note. Scratch is removed afterwards.
"""
import json
import os
import shutil
import subprocess
import sys
import tempfile

VERIF = os.path.dirname(os.path.dirname(os.path.abspath(__file__)))


def main():
    a = sys.argv[1:]
    prop, defect, name = a[0], a[1], a[2]
    budget, clause, seed = "40", None, "0"
    i = 3
    while i < len(a):
        if a[i] == "--budget":
            budget = a[i + 1]
        elif a[i] == "--clause":
            clause = a[i + 1]
        elif a[i] == "--seed":
            seed = a[i + 1]
        i += 2
    d = tempfile.mkdtemp(prefix="zc-base-", dir="/dev/shm")
    try:
        subprocess.run(f"git -C /repo archive HEAD src | tar -x -C {d}", shell=True, check=True)
        rep_dir = os.path.join(VERIF, "replays")
        before = set(os.listdir(rep_dir)) if os.path.isdir(rep_dir) else set()
        env = dict(os.environ, VERIF_REPO_SRC=os.path.join(d, "src"), PYTHONHASHSEED="0", VERIF_SEED=seed)
        r = subprocess.run(["/venv/bin/python", "-m", f"checks.{prop.lower()}", "--budget", budget, "--no-evidence"], cwd=VERIF,
                           env=env, capture_output=True, text=True)
        print(r.stdout[-1500:])
        new = sorted(set(os.listdir(rep_dir)) - before)
        kept = 0
        for fn in new:
            p = os.path.join(rep_dir, fn)
            rep = json.load(open(p))
            if clause and rep["clause"] != clause:
                continue
            env2 = dict(os.environ, PYTHONHASHSEED="0")
            env2.pop("VERIF_REPO_SRC", None)
            r2 = subprocess.run(["/venv/bin/python", "-m", f"checks.{prop.lower()}", "--replay", p], cwd=VERIF, env=env2,
                                capture_output=True, text=True)
            if r2.returncode == 1:
                print("still fails on the working tree:", fn, r2.stdout[-300:])
                continue
            rep["defect"] = f"{defect} (history fails on the tree before the repair, passes after it)"
            os.makedirs(os.path.join(VERIF, "regression", prop.upper()), exist_ok=True)
            out = os.path.join(VERIF, "regression", prop.upper(), f"{defect}-{name}" + (f"-{kept}" if kept else "") + ".json")
            json.dump(rep, open(out, "w"), indent=1)
            print("kept", out, rep["clause"])
            kept += 1
        for fn in new:
            os.remove(os.path.join(rep_dir, fn))
        return 0 if kept else 1
    finally:
        shutil.rmtree(d, ignore_errors=True)


if __name__ == "__main__":
    sys.exit(main())
