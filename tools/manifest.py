#!/usr/bin/env python3
"""Regenerates /verif/MANIFEST.json from the table below (run with any python3)."""
import json
import os

VERIF = os.path.dirname(os.path.dirname(os.path.abspath(__file__)))
PY = "/venv/bin/python"

NA_PURE = {
    "C01": "pure function of the message content (encoder/decoder round trip): no schedule, clock, fault, peer or shared state for a simulator to decide (DESIGN.md §5 C01)",
    "C02": "pure function of one byte string (decoder totality); its system-level consequence - hostile datagrams at a running instance - is decided under C15 (DESIGN.md §5 C02)",
    "C14": "pure function of the entries handed to the message builder; no schedule, clock, fault or peer (a wire monitor still checks all simulated traffic as a by-product, DESIGN.md §5 C14)",
    "C19": "pure functions of a string / a dict (name validator, TXT encoding); quantifier is inputs only (DESIGN.md §5 C19)",
    "C20": "relation over pairs of immutable values (__eq__/__hash__); no schedule, clock, fault or peer (DESIGN.md §5 C20)",
}

TRUSTED = ("Trusted base: the simulator in /verif/sim (virtual-time loop that reads one datagram per socket and iteration "
           "ahead of the due timers like asyncio's selector loop, link model, independent wire codec, reference models) "
           "and CPython's asyncio scheduler. Pure-python zeroconf from /repo/src is what runs; the Cython build is not "
           "exercised, real threads are not run (Zeroconf.close() from another thread and the delivery thread of "
           "ServiceBrowser are modelled cooperatively in C17). A clean batch is sampled evidence, not proof.")

REGRESSION_NOTE = (" Every run first replays the minimised failing histories of the defects repaired so far "
                   "(/verif/regression/<id>/, DESIGN.md sections 14 and 17), so a defect that returns is reported by "
                   "its own history; fault kinds include process stalls with asyncio-faithful backlog draining (DESIGN.md "
                   "sections 14 and 17) where the oracle tolerates lateness.")

SIM = "deterministic simulation: virtual-time asyncio loop + simulated multicast link, seeded schedule/fault search, "

CHECKS = {
    "C03": {
        "text": "Seeded search over registry histories (register/update/unregister of 0..6 services issued at arbitrary "
                "virtual times, also while a registration is still probing) x queries (1..4 questions, every question "
                "type, re-cased/unregistered/enumeration names) x known-answer lists around the half-TTL boundary, sent "
                "from a legacy source port so the complete answer set returns in the unicast reply; the reply is decoded "
                "independently and compared with an executable registry model (answers exact incl. TTL, additionals "
                "sound and disjoint); everything the responder multicasts later (queued answers) must belong to a service "
                "registered, in that version, at that instant - also after in-place changes of a ServiceInfo; part of the runs "
                "split queries into a truncated packet and a completing packet (probe or more known answers) and judge "
                "the reply to the assembled query. "
                "Exploration: the claim is over registry histories and their timing.",
        "technique": SIM + "ModelRegistry comparison per delivered query",
        "design_ref": "DESIGN.md §5 C03",
    },
    "C04": {
        "text": "Seeded search over response histories and clock advances (0 ms..hours) delivered to one real instance "
                "with 1..3 AsyncServiceBrowsers started/cancelled at arbitrary points; invariants checked after every "
                "delivery, purge and browser start: Added/Removed alternation per (browser, type, instance), "
                "Added-not-Removed == cached PTR aliases, and the cache already complete inside add_service (listeners look "
                "the service up from add_service with the pair they were handed). "
                "Exploration, because the property is a statement over all histories x schedules.",
        "technique": SIM + "invariants at every quiescent point against ModelCache-driven expectations",
        "design_ref": "DESIGN.md §5 C04",
    },
    "C06": {
        "text": "Seeded search over response histories with probe listeners added/removed at arbitrary points (also from "
                "inside callbacks, twice, or when not registered); every delivered datagram's (new, previous) pairs, their order, exactly-once "
                "delivery, and the cache state visible inside each of the two callbacks are compared with the reference "
                "cache model (PTR TTL floor, arrival time as creation time, flush only beyond 1000 ms).",
        "technique": SIM + "probe listeners snapshot the cache inside callbacks; compared per datagram with ModelCache",
        "design_ref": "DESIGN.md §5 C06",
    },
    "C10": {
        "text": "Seeded search over pointer-record histories (TTL 1125..9000 s learned in any order, refreshed, re-cased, "
                "withdrawn or abandoned) across up to 3 h of virtual time on a real instance with 1..2 browsers "
                "(delay 1..60 s); the query trace is judged against the per-host reference cache: start-up schedule, "
                "minimum spacing, justification of every refresh query, and bounded liveness of the 75 %/85 %/95 % refresh "
                "steps (fractions of the record's own TTL, each at most the delay late) for every record left to expire; "
                "chatty responders, interleaving steps of several types, and process stalls placed between the steps of the "
                "instance's own start-up included. Exploration over histories x schedules; five scheduler defects "
                "were found this way and repaired.",
        "technique": SIM + "interval oracles on the query trace against ModelCache, hours of virtual time per run",
        "design_ref": "DESIGN.md §5 C10",
    },
    "C15": {
        "text": "Seeded search over hostile datagram streams (random bytes, mutated captures of the run's own traffic, "
                "grammar-generated compression-pointer chains/cycles, oversize, invalid UTF-8, TC poisoning, well-formed names "
                "that are awkward as text (labels with dots, control characters); mDNS and "
                "legacy source ports) interleaved with honest traffic of two real instances and in-flight corruption; "
                "oracle: nothing reaches any event-loop exception handler, oversized datagrams have no effect, and after "
                "the faults stop canary queries (also from the attacker's address) and a canary announcement are served "
                "within bounded time; part of the runs have the library's logger at DEBUG and socket errors reported to "
                "error_received. Two escaping exceptions were found this way and repaired.",
        "technique": SIM + "fault injection of garbage/corruption into a live instance, loop-exception and bounded-liveness oracles",
        "design_ref": "DESIGN.md §5 C15",
    },
    "C16": {
        "text": "Metamorphic deterministic simulation: every case runs twice from identical seeds and decisions, once as "
                "is and once with a seed-chosen subset (often all) of the deliveries to the real instances duplicated "
                "back to back on the same socket (read in successive loop iterations, with whatever reaches the instance's "
                "other sockets in between; instances with one socket, several sockets, dual-stack, or no socket in the "
                "mDNS group; repeated datagrams; application handlers that raise); transmission traces (time, destination, bytes) and callback logs must "
                "be equal, the stated unicast exemption aside. Runs are compared exactly up to the first duplicated "
                "QU-question query (known finding D7 from there on); half of the scenarios contain no QU question and "
                "are compared in full.",
        "technique": SIM + "metamorphic comparison of two replays (with / without back-to-back duplication)",
        "design_ref": "DESIGN.md §5 C16",
    },
    "C17": {
        "text": "Seeded search over shutdown instants: AsyncZeroconf.async_close() injected at a seed-chosen loop-iteration "
                "index or instant (probing, announcing, queued answers, deferred truncated queries, browser start-up and "
                "refresh timers, pending lookups, purge timer all in flight), or Zeroconf.close() from a cooperatively "
                "modelled non-loop thread, with AsyncServiceBrowsers and thread-based ServiceBrowsers (delivery thread "
                "stepped by the simulator, slow handlers, join time-outs); followed by up to 2 h of virtual time with incoming traffic and a second "
                "close. Oracle: no transmission and no callback after close returned, nothing in the loop exception "
                "handler for the whole run, three complete goodbyes for everything registered, idempotent second close.",
        "technique": SIM + "crash-point style injection of close at arbitrary event indices, trace/callback oracle",
        "design_ref": "DESIGN.md §5 C17",
    },
    "C09": {
        "text": "Seeded search over the arrival time of a conflicting PTR relative to the three probe instants (scripted "
                "owner answering probes after 0..150 ms by multicast/unicast, spontaneous announcements at +-1 ms of a probe "
                "instant, pre-loaded and expired-but-unpurged records, goodbyes, chains of taken -N names, a real second "
                "instance as owner) with allow_name_change on/off; the registrant's probe/announcement schedule and "
                "packet contents, the API outcome and the final name are judged against the per-host reference cache.",
        "technique": SIM + "interval oracle on probe/announcement times, conflict-presence timeline from delivered traffic",
        "design_ref": "DESIGN.md §5 C09",
    },
    "C11": {
        "text": "Seeded search over queries (1..4 questions with independent QU/QM bits, probes, any id, known answers) from "
                "arbitrary source addresses and ports, by multicast or unicast, against a real responder in single-, multi- "
                "and dual-stack socket layouts, arriving at record ages below/at/above a quarter TTL; every datagram the "
                "responder emits is decoded independently and checked for destination class per answer (unicast / "
                "immediate multicast), sending socket, the multicast group of the querier's address family, id/question echo "
                "(root-name questions included), flush bits and multicast header.",
        "technique": SIM + "per-query expected unicast / immediate-multicast sets from ModelRegistry + per-host ModelCache",
        "design_ref": "DESIGN.md §5 C11",
    },
    "C12": {
        "text": "Seeded search over arrival schedules of 1..6 queries on the boundary grid (0/20/120/500/1000/1120 ms +-1) and "
                "truncated packet trains (1..4 packets, several sources incl. legacy ports and twin trains of two queriers, "
                "continuation before/at/after the hold timer), with "
                "the library's jitter draws seeded or forced to min/max; every multicast answer on the trace must lie in "
                "the window of a justifying delivered query (immediate, 20..500 ms, or >= 1 s after the last sighting and "
                "<= 1.2 s after the query) and every expected answer must appear inside its window; ambiguous timer/packet "
                "ties are judged under both assemblies.",
        "technique": SIM + "interval oracle on send times against per-host ModelCache sightings, jitter corner forcing",
        "design_ref": "DESIGN.md §5 C12",
    },
    "C13": {
        "text": "Seeded search over cache contents (0..400 pre-loaded pointer records and SRV/TXT/address records at ages "
                "around half TTL), relative start timings of several askers of one question (0/1/998/999/1000/1001 ms) "
                "inside one instance and across 1..3 real instances, scripted queriers on mDNS and legacy ports (also lone "
                "truncated packets and byte-identical repeats), forced QU/QM types and lookup timeouts; every query "
                "datagram is decoded independently and its known-answer list, remaining TTLs, TC continuation, QU/QM "
                "progression, spacing, and presence/absence of each question are judged against the per-host reference "
                "cache and question-history model.",
        "technique": SIM + "per-host ModelCache + question-history model judged against every query on the trace",
        "design_ref": "DESIGN.md §5 C13",
    },
    "C18": {
        "text": "Seeded search over cache states of the looked-up instance (none/some/all of SRV, TXT, A, AAAA; fresh, stale, "
                "expired-but-unpurged; several addresses; two SRV generations) x arrival times of the missing records "
                "relative to the query schedule and to the timeout (+-1 ms) x timeouts 200 ms..10 s x 1..3 concurrent "
                "lookups x process stalls across the deadline; oracle on return time, success iff an address is known, provenance of every returned field from "
                "records the reference cache held unexpired during the lookup, silence when the cache suffices and "
                "QU-then-QM otherwise.",
        "technique": SIM + "provenance oracle against the per-host ModelCache mutation log, reactive scripted responder",
        "design_ref": "DESIGN.md §5 C18",
    },
    "C07": {
        "text": "Seeded search over multi-host scenarios (2..5 real instances, some joining late, 1..6 services of 1..3 types, "
                "browsers before/during/after registration, register/update/unregister/close/crash/restart at arbitrary "
                "virtual times) x delivery schedules (per-receiver delay 0..100 ms, duplication, reordering) x exactly one "
                "dropped datagram (position sampled, and enumerated over a fixed scenario) x the library's jitter; bounded "
                "liveness oracle 17 s after the last change plus resolution of lookups started inside add_service (withdrawn "
                "addresses may be resolved for 1.5 s only); a 'late browser' flavour starts browsers 30 s .. 73 min after "
                "the last change; a 'hot' flavour issues a change a few ms after the owner's first unicast answer to a browser "
                "that has just started on a host that has just joined, with delays at the extremes and the loss among the "
                "change's own datagrams; a third of the updates change the registered ServiceInfo in place.",
        "technique": SIM + "single-loss fault enumeration/sampling, bounded-liveness oracle after faults stop",
        "design_ref": "DESIGN.md §5 C07",
    },
    "C05": {
        "text": "Seeded search over response-datagram histories (repeats, refreshes, goodbyes, cache-flush, re-cased names) "
                "and clock steps around the 1 s flush window, TTL expiry and the 10 s purge, driven through the real "
                "listener and purge timer of one instance; after every delivery and purge every public lookup path is "
                "compared with an executable RFC 6762 section 10 reference cache. Exploration: the claim ranges over "
                "histories and time, and the defect it found (key/value divergence) needs a specific 3-step history.",
        "technique": SIM + "reference-model (ModelCache) comparison after every event, delta-debugged replay files",
        "design_ref": "DESIGN.md §5 C05",
    },
    "C08": {
        "text": "Seeded search over unregister/close timings relative to queued answers (aggregation queue, 1 s "
                "protected queue, immediate replies) on a real responder; trace oracle: three complete goodbyes, then no "
                "positive-TTL copy of a withdrawn record (judged by name, whatever version a queued answer was built from) until "
                "the name is registered again; in-place updates and several unregisters before a close included. Exploration is the right "
                "level: the property is a statement over schedules and only fails for particular query/unregister "
                "interleavings.",
        "technique": "deterministic simulation: virtual-time asyncio loop + simulated multicast link, seeded schedule/fault search, trace oracle, delta-debugged replay files",
        "design_ref": "DESIGN.md §5 C08",
    },
}


def main():
    checks = []
    for pid in sorted(CHECKS):
        c = CHECKS[pid]
        mod = "checks." + pid.lower()
        checks.append({
            "property_id": pid,
            "quick_cmd": f"PYTHONHASHSEED=0 {PY} -m {mod} --tier quick",
            "thorough_cmd": f"PYTHONHASHSEED=0 {PY} -m {mod} --tier thorough",
            "evidence_file": f"/verif/evidence/{pid}.json",
            "replay_cmd_template": f"PYTHONHASHSEED=0 {PY} -m {mod} --replay {{path}}",
            "engine": "zsim",
            "level_claimed": {"category": c.get("category", "exploration"), "text": c["text"] + REGRESSION_NOTE,
                              "design_ref": c["design_ref"]},
            "level_note": c.get("note", TRUSTED),
            "technique": c["technique"],
        })
    na = []
    for i in range(1, 21):
        pid = "C%02d" % i
        if pid in CHECKS:
            continue
        if pid in NA_PURE:
            na.append({"property_id": pid, "reason": NA_PURE[pid]})
        else:
            na.append({"property_id": pid, "reason": f"check not built yet (planned: deterministic simulation, DESIGN.md §5 {pid})"})
    m = {
        "version": 1,
        "setup_cmd": f"cd /verif && PYTHONHASHSEED=0 {PY} -m selftest.setup && PYTHONHASHSEED=0 {PY} -m selftest.determinism --seeds 40",
        "hooks": {
            "guard": "ZEROCONF_VERIF",
            "enable": "no source hook in /repo is needed: the simulator takes module-level seams from outside "
                      "(zeroconf._utils.time.time, zeroconf._core.create_sockets, the four randint sites); the guard name is reserved",
            "baseline_off_cmd": "cd /repo && /venv/bin/python -m pytest -ra -q -p no:cacheprovider --timeout=900 --continue-on-collection-errors",
            "source_commits": [],
            "add_only": True,
        },
        "engines": [{"name": "zsim", "path": "/verif/sim", "serves_properties": sorted(CHECKS),
                     "kind_free_text": "deterministic simulator: virtual-time asyncio loop, simulated multicast link with "
                                       "fault injection, independent wire codec, reference models, seeded batch runner with "
                                       "shrinking and replay"}],
        "checks": checks,
        "not_applicable": na,
        "notes": "Genuine defects found and repaired are listed in /verif/known_findings.json (fixed: entries) and DESIGN.md §6.",
    }
    with open(os.path.join(VERIF, "MANIFEST.json"), "w") as f:
        json.dump(m, f, indent=1)
    print("wrote MANIFEST.json with", len(checks), "checks,", len(na), "not applicable")


if __name__ == "__main__":
    main()
